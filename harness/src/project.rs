//! Projection of pyxis's public data structures onto the JSON shape of the TLA+ model
//! (spec/Types.tla: TypeRes / EnumRes; spec/Function.tla: built functions).

use pyxis::grammar::ItemPath;
use pyxis::semantic::types::{
    Argument, Function, FunctionBody, ItemCategory, ItemDefinition, ItemDefinitionInner, ItemState,
    Type, Visibility,
};
use serde_json::{json, Value};

use crate::render::NONE;

pub fn path(p: &ItemPath) -> Value {
    Value::Array(p.iter().map(|s| json!(s.as_str())).collect())
}

pub fn vis(v: Visibility) -> &'static str {
    match v {
        Visibility::Public => "pub",
        Visibility::Private => "priv",
    }
}

/// the model keeps documentation as a sequence of lines
pub fn doc(d: Option<&str>) -> Value {
    match d {
        None => json!([]),
        Some(t) => Value::Array(t.split('\n').map(|l| json!(l)).collect()),
    }
}

pub fn ty(t: &Type) -> Value {
    match t {
        Type::Unresolved(g) => json!({"k": "unresolved", "dbg": format!("{g:?}")}),
        Type::Raw(p) => json!({"k": "raw", "p": path(p)}),
        Type::ConstPointer(t) => json!({"k": "cptr", "t": ty(t)}),
        Type::MutPointer(t) => json!({"k": "mptr", "t": ty(t)}),
        Type::Array(t, n) => json!({"k": "arr", "t": ty(t), "len": *n as u64}),
        Type::Function(cc, args, ret) => json!({
            "k": "fn", "cc": cc.as_str(),
            "args": args.iter().map(|(n, t)| json!({"name": n, "ty": ty(t)})).collect::<Vec<_>>(),
            "ret": ret.as_ref().map(|t| ty(t)).unwrap_or(json!({"k": "none"})),
        }),
    }
}

pub fn opt_usize(v: Option<usize>) -> Value {
    match v {
        Some(n) => json!(n as u64),
        None => json!(NONE),
    }
}

pub fn function(f: &Function) -> Value {
    let body = match &f.body {
        FunctionBody::Address { address } => json!({"k": "addr", "a": *address as u64, "f": "", "fn": ""}),
        FunctionBody::Field { field, function_name } => {
            json!({"k": "field", "a": NONE, "f": field, "fn": function_name})
        }
        FunctionBody::Vftable { function_name } => json!({"k": "vft", "a": NONE, "f": "", "fn": function_name}),
    };
    json!({
        "vis": vis(f.visibility), "name": f.name, "doc": doc(f.doc.as_deref()), "body": body,
        "args": f.arguments.iter().map(|a| match a {
            Argument::ConstSelf => json!({"k": "cself", "name": "", "ty": {"k": "none"}}),
            Argument::MutSelf => json!({"k": "mself", "name": "", "ty": {"k": "none"}}),
            Argument::Field(n, t) => json!({"k": "named", "name": n, "ty": ty(t)}),
        }).collect::<Vec<_>>(),
        "ret": f.return_type.as_ref().map(ty).unwrap_or(json!({"k": "none"})),
        "cc": f.calling_convention.as_str(),
    })
}

pub fn item(d: &ItemDefinition) -> Value {
    let cat = match d.category {
        ItemCategory::Defined => "def",
        ItemCategory::Predefined => "pre",
        ItemCategory::Extern => "ext",
    };
    let (st, res) = match &d.state {
        ItemState::Unresolved(_) => ("U", json!({"k": "none"})),
        ItemState::Resolved(r) => (
            "R",
            match &r.inner {
                ItemDefinitionInner::Type(td) => json!({
                    "k": "type", "size": r.size as u64, "align": r.alignment as u64,
                    "regions": td.regions.iter().map(|rg| json!({
                        "name": rg.name.clone().unwrap_or_default(), "vis": vis(rg.visibility),
                        "doc": doc(rg.doc.as_deref()), "ty": ty(&rg.type_ref), "base": rg.is_base,
                    })).collect::<Vec<_>>(),
                    "vft": match &td.vftable {
                        None => json!({"has": false, "funcs": [], "baseField": "", "ty": {"k": "none"}}),
                        Some(v) => json!({"has": true,
                            "funcs": v.functions.iter().map(function).collect::<Vec<_>>(),
                            "baseField": v.base_field.clone().unwrap_or_default(), "ty": ty(&v.type_)}),
                    },
                    "afuncs": td.associated_functions.iter().map(function).collect::<Vec<_>>(),
                    "doc": doc(td.doc.as_deref()), "singleton": opt_usize(td.singleton),
                    "copyable": td.copyable, "cloneable": td.cloneable,
                    "defaultable": td.defaultable, "packed": td.packed,
                }),
                ItemDefinitionInner::Enum(ed) => json!({
                    "k": "enum", "size": r.size as u64, "align": r.alignment as u64, "ty": ty(&ed.type_),
                    "vars": ed.fields.iter().map(|(n, v)| json!({"name": n, "val": *v as i64})).collect::<Vec<_>>(),
                    "dflt": opt_usize(ed.default_index),
                    "doc": doc(ed.doc.as_deref()), "singleton": opt_usize(ed.singleton),
                    "copyable": ed.copyable, "cloneable": ed.cloneable, "defaultable": ed.defaultable,
                }),
            },
        ),
    };
    json!({"path": path(&d.path), "cat": cat, "st": st, "vis": vis(d.visibility), "res": res})
}
