//! Abstract input (the JSON form of the TLA+ records of spec/Base.tla) -> .pyxis text.
//! The text goes through the real parser, so the parser is on the path of every replay.

use rand::{rngs::StdRng, Rng};
use serde_json::Value;

pub const NONE: i64 = -999999;

pub fn is_some(v: &Value) -> bool {
    if let Some(a) = v.get("a").and_then(|a| a.as_str()) {
        return a != "none";
    }
    match v.as_i64() {
        Some(n) => n != NONE,
        None => !v.is_null(),
    }
}

pub fn arr(v: &Value) -> &[Value] {
    // ToJson prints an empty function/record as [], a sequence as an array
    v.as_array().map(|a| a.as_slice()).unwrap_or(&[])
}

pub fn s(v: &Value) -> &str {
    v.as_str().unwrap_or("")
}

/// Optional randomisation of trivia and literal spellings (C18, C20).
pub struct Style<'a> {
    pub rng: Option<&'a mut StdRng>,
}

impl Style<'_> {
    fn coin(&mut self) -> bool {
        match &mut self.rng {
            Some(r) => r.gen_bool(0.5),
            None => false,
        }
    }
    fn pick(&mut self, n: usize) -> usize {
        match &mut self.rng {
            Some(r) => r.gen_range(0..n),
            None => 0,
        }
    }
    pub fn ws(&mut self) -> &'static str {
        match &mut self.rng {
            None => " ",
            Some(r) => ["", " ", "  ", "\n", " /* c */ ", "\n// line\n", "\t"][r.gen_range(0..7)],
        }
    }
    /// separator where at least one blank is needed
    pub fn sp(&mut self) -> &'static str {
        match &mut self.rng {
            None => " ",
            Some(r) => [" ", "  ", "\n", " /* c */ ", "\n// line\n", "\t"][r.gen_range(0..6)],
        }
    }
    pub fn int(&mut self, n: i128) -> String {
        if n < 0 {
            return format!("-{}", self.int(-n));
        }
        match self.pick(4) {
            0 => format!("{n}"),
            1 => format!("0x{n:X}"),
            2 => format!("0x{n:x}"),
            _ => {
                let d = format!("{n}");
                if d.len() > 3 {
                    format!("{}_{}", &d[..d.len() - 3], &d[d.len() - 3..])
                } else {
                    format!("0b{n:b}")
                }
            }
        }
    }
}

pub fn anchor(a: &str) -> i128 {
    match a {
        "i128min" => i128::MIN + 8,
        "i64min" => i64::MIN as i128,
        "i32min" => i32::MIN as i128,
        "i16min" => i16::MIN as i128,
        "i8min" => i8::MIN as i128,
        "i8max" => i8::MAX as i128,
        "u8max" => u8::MAX as i128,
        "i16max" => i16::MAX as i128,
        "u16max" => u16::MAX as i128,
        "i32max" => i32::MAX as i128,
        "u32max" => u32::MAX as i128,
        "p60" => 1i128 << 60,
        "p61" => 1i128 << 61,
        "p62" => 1i128 << 62,
        "i64max" => i64::MAX as i128,
        "u64max" => u64::MAX as i128,
        "i128max" | "u128max" => i128::MAX - 8,
        _ => 0,
    }
}

pub fn num(v: &Value) -> i128 {
    // symbolic integers of the specification: anchor + offset
    if let Some(a) = v.get("a").and_then(|a| a.as_str()) {
        return anchor(a) + v["d"].as_i64().unwrap_or(0) as i128;
    }
    // numbers may be given as JSON integers or as decimal strings (beyond 2^53)
    if let Some(n) = v.as_i64() {
        n as i128
    } else if let Some(n) = v.as_u64() {
        n as i128
    } else if let Some(t) = v.as_str() {
        t.parse().unwrap_or(0)
    } else {
        0
    }
}

fn lit_str(t: &str) -> String {
    format!("{:?}", t)
}

pub fn ty(v: &Value, st: &mut Style) -> String {
    match s(&v["k"]) {
        "nm" => s(&v["n"]).to_string(),
        "cptr" => format!("*{}const {}", st.ws(), ty(&v["t"], st)),
        "mptr" => format!("*{}mut {}", st.ws(), ty(&v["t"], st)),
        "arr" => format!("[{}{};{}{}]", st.ws(), ty(&v["t"], st), st.ws(), plain_int(&v["len"], st)),
        "unk" => format!("unknown{}<{}>", st.ws(), plain_int(&v["len"], st)),
        other => format!("/*?{other}*/"),
    }
}

fn plain_int(v: &Value, st: &mut Style) -> String {
    // array lengths / unknown<N> go through LitInt::base10_parse::<usize>: any spelling is fine
    st.int(num(v))
}

fn doc_attr(line: &str, inner: bool, st: &mut Style) -> String {
    let plain_ok = !line.contains('\n') && !line.contains('\r');
    // `///x` can only express lines without a leading '/' ("////" is a plain comment)
    if plain_ok && !line.starts_with('/') && st.coin() {
        format!("{}{}\n", if inner { "//!" } else { "///" }, line)
    } else {
        format!("{}doc{}={}{}]\n", if inner { "#![" } else { "#[" }, st.ws(), st.ws(), lit_str(line))
    }
}

fn docs(out: &mut String, d: &Value, inner: bool, st: &mut Style) {
    for line in arr(d) {
        let t = doc_attr(s(line), inner, st);
        out.push_str(&t);
    }
}

/// documentation lines (order kept) interleaved with the other attributes (order and
/// bracket grouping randomised when a style is active)
fn attrs_with_docs(out: &mut String, d: &Value, attrs: &[String], st: &mut Style) {
    let mut attrs: Vec<String> = attrs.to_vec();
    if st.rng.is_some() {
        // shuffle
        for i in (1..attrs.len()).rev() {
            let j = st.pick(i + 1);
            attrs.swap(i, j);
        }
    }
    // group into brackets
    let mut groups: Vec<String> = vec![];
    let mut cur: Vec<String> = vec![];
    for a in attrs {
        cur.push(a);
        if !st.coin() {
            groups.push(format!("#[{}]{}\n", cur.join(", "), st.ws()));
            cur.clear();
        }
    }
    if !cur.is_empty() {
        groups.push(format!("#[{}]\n", cur.join(", ")));
    }
    let doc_lines: Vec<String> = arr(d).iter().map(|l| doc_attr(s(l), false, st)).collect();
    // merge keeping both internal orders
    let (mut i, mut j) = (0, 0);
    while i < doc_lines.len() || j < groups.len() {
        let take_doc = if i >= doc_lines.len() {
            false
        } else if j >= groups.len() {
            true
        } else if st.rng.is_some() {
            st.coin()
        } else {
            true
        };
        if take_doc {
            out.push_str(&doc_lines[i]);
            i += 1;
        } else {
            out.push_str(&groups[j]);
            j += 1;
        }
    }
}

fn attr_list(out: &mut String, attrs: &[String], st: &mut Style) {
    attrs_with_docs(out, &Value::Null, attrs, st);
}

fn vis(v: &Value) -> &'static str {
    if s(v) == "pub" {
        "pub "
    } else {
        ""
    }
}

fn func(out: &mut String, f: &Value, st: &mut Style) {
    let mut attrs = vec![];
    if is_some(&f["addr"]) {
        attrs.push(format!("address({})", st.int(num(&f["addr"]))));
    }
    if is_some(&f["index"]) {
        attrs.push(format!("index({})", st.int(num(&f["index"]))));
    }
    if !s(&f["cc"]).is_empty() {
        attrs.push(format!("calling_convention({})", lit_str(s(&f["cc"]))));
    }
    for x in arr(&f["xattrs"]) {
        attrs.push(s(x).to_string());
    }
    attrs_with_docs(out, &f["doc"], &attrs, st);
    out.push_str(&format!("{}fn {}(", vis(&f["vis"]), s(&f["name"])));
    let args: Vec<String> = arr(&f["args"])
        .iter()
        .map(|a| match s(&a["k"]) {
            "cself" => format!("&{}self", st.ws()),
            "mself" => format!("&{}mut{}self", st.ws(), st.sp()),
            _ => format!("{}{}:{}{}", s(&a["name"]), st.ws(), st.ws(), ty(&a["ty"], st)),
        })
        .collect();
    out.push_str(&args.join(", "));
    if !args.is_empty() && st.coin() {
        out.push(',');
    }
    out.push(')');
    if s(&f["ret"]["k"]) != "none" {
        out.push_str(&format!(" -> {}", ty(&f["ret"], st)));
    }
}

fn flags(d: &Value, attrs: &mut Vec<String>) {
    for k in ["packed", "copyable", "cloneable", "defaultable"] {
        if d[k].as_bool() == Some(true) {
            attrs.push(k.to_string());
        }
    }
}

fn type_def(out: &mut String, d: &Value, st: &mut Style) {
    let mut attrs = vec![];
    for (k, a) in [("size", "size"), ("align", "align"), ("singleton", "singleton")] {
        if is_some(&d[k]) {
            attrs.push(format!("{a}({})", st.int(num(&d[k]))));
        }
    }
    flags(d, &mut attrs);
    for x in arr(&d["xattrs"]) {
        attrs.push(s(x).to_string());
    }
    attrs_with_docs(out, &d["doc"], &attrs, st);
    out.push_str(&format!("{}type {}", vis(&d["vis"]), s(&d["name"])));
    let fields = arr(&d["fields"]);
    let has_vft = d["vft"]["has"].as_bool() == Some(true);
    if fields.is_empty() && !has_vft && st.coin() {
        out.push_str(";\n");
        return;
    }
    out.push_str(" {\n");
    let mut stmts: Vec<String> = vec![];
    for f in fields {
        let mut t = String::new();
        let mut attrs = vec![];
        if is_some(&f["addr"]) {
            attrs.push(format!("address({})", st.int(num(&f["addr"]))));
        }
        if f["base"].as_bool() == Some(true) {
            attrs.push("base".to_string());
        }
        for x in arr(&f["xattrs"]) {
            attrs.push(s(x).to_string());
        }
        attrs_with_docs(&mut t, &f["doc"], &attrs, st);
        t.push_str(&format!(
            "{}{}{}:{}{}",
            vis(&f["vis"]),
            s(&f["name"]),
            st.ws(),
            st.ws(),
            ty(&f["ty"], st)
        ));
        stmts.push(t);
    }
    if has_vft {
        let mut t = String::new();
        let mut attrs = vec![];
        if is_some(&d["vft"]["size"]) {
            attrs.push(format!("size({})", st.int(num(&d["vft"]["size"]))));
        }
        attrs_with_docs(&mut t, &d["vft"]["doc"], &attrs, st);
        t.push_str("vftable {\n");
        let fs = arr(&d["vft"]["funcs"]);
        for (i, f) in fs.iter().enumerate() {
            func(&mut t, f, st);
            if i + 1 < fs.len() || st.coin() || st.rng.is_none() {
                t.push(';');
            }
            t.push('\n');
        }
        t.push('}');
        let pos = (d["vft"]["pos"].as_u64().unwrap_or(0) as usize).min(stmts.len());
        stmts.insert(pos, t);
    }
    let n = stmts.len();
    for (i, t) in stmts.into_iter().enumerate() {
        out.push_str(&t);
        if i + 1 < n || st.coin() || st.rng.is_none() {
            out.push(',');
        }
        out.push('\n');
    }
    out.push_str("}\n");
}

fn enum_def(out: &mut String, d: &Value, st: &mut Style) {
    let mut attrs = vec![];
    if is_some(&d["singleton"]) {
        attrs.push(format!("singleton({})", st.int(num(&d["singleton"]))));
    }
    flags(d, &mut attrs);
    for x in arr(&d["xattrs"]) {
        attrs.push(s(x).to_string());
    }
    attrs_with_docs(out, &d["doc"], &attrs, st);
    out.push_str(&format!(
        "{}enum {}{}:{}{} {{\n",
        vis(&d["vis"]),
        s(&d["name"]),
        st.ws(),
        st.ws(),
        ty(&d["base"], st)
    ));
    let vars = arr(&d["vars"]);
    for (i, v) in vars.iter().enumerate() {
        let vattrs: Vec<String> = if v["dflt"].as_bool() == Some(true) { vec!["default".to_string()] } else { vec![] };
        attrs_with_docs(out, &v["doc"], &vattrs, st);
        out.push_str(s(&v["name"]));
        if !s(&v["raw"]).is_empty() {
            out.push_str(&format!("{}={}{}", st.ws(), st.ws(), s(&v["raw"])));
        } else if is_some(&v["val"]) {
            out.push_str(&format!("{}={}{}", st.ws(), st.ws(), st.int(num(&v["val"]))));
        }
        if i + 1 < vars.len() || st.coin() || st.rng.is_none() {
            out.push(',');
        }
        out.push('\n');
    }
    out.push_str("}\n");
}

pub fn module(m: &Value, st: &mut Style) -> String {
    let mut out = String::new();
    docs(&mut out, &m["doc"], true, st);
    for u in arr(&m["uses"]) {
        let segs: Vec<&str> = arr(u).iter().map(s).collect();
        out.push_str(&format!("use {};\n", segs.join("::")));
    }
    for b in arr(&m["backs"]) {
        let pro = s(&b["pro"]);
        let epi = s(&b["epi"]);
        let (hp, he) = (pro != "\n", epi != "\n");
        let name = s(&b["name"]);
        if let Some(pro2) = b.get("pro2").and_then(|v| v.as_str()) {
            // one braced block with two prologues
            out.push_str(&format!("backend {name} {{\n"));
            out.push_str(&format!("prologue {};\n", lit_str(pro)));
            if he && st.coin() {
                out.push_str(&format!("epilogue {};\n", lit_str(epi)));
                out.push_str(&format!("prologue {};\n", lit_str(pro2)));
            } else {
                out.push_str(&format!("prologue {};\n", lit_str(pro2)));
                if he {
                    out.push_str(&format!("epilogue {};\n", lit_str(epi)));
                }
            }
            out.push_str("}\n");
        } else if hp && !he && !st.coin() {
            out.push_str(&format!("backend {name} prologue {};\n", lit_str(pro)));
        } else if he && !hp && !st.coin() {
            out.push_str(&format!("backend {name} epilogue {};\n", lit_str(epi)));
        } else {
            out.push_str(&format!("backend {name} {{\n"));
            if hp {
                out.push_str(&format!("prologue {};\n", lit_str(pro)));
            }
            if he {
                out.push_str(&format!("epilogue {};\n", lit_str(epi)));
            }
            out.push_str("}\n");
        }
    }
    for e in arr(&m["exts"]) {
        let mut attrs = vec![];
        if is_some(&e["size"]) {
            attrs.push(format!("size({})", st.int(num(&e["size"]))));
        }
        if is_some(&e["align"]) {
            attrs.push(format!("align({})", st.int(num(&e["align"]))));
        }
        attr_list(&mut out, &attrs, st);
        out.push_str(&format!("extern type {};\n", s(&e["name"])));
    }
    for e in arr(&m["evals"]) {
        let mut attrs = vec![];
        if is_some(&e["addr"]) {
            attrs.push(format!("address({})", st.int(num(&e["addr"]))));
        }
        // attributes that come first, in the given order (an earlier statement of an attribute that is stated again below)
        let early: Vec<&str> = arr(&e["oattrs"]).iter().map(s).collect();
        if !early.is_empty() {
            if st.coin() && !attrs.is_empty() {
                // one bracket for all of them
                let mut all: Vec<String> = early.iter().map(|x| x.to_string()).collect();
                all.extend(attrs.drain(..));
                out.push_str(&format!("#[{}]\n", all.join(", ")));
            } else {
                for x in &early {
                    out.push_str(&format!("#[{x}]\n"));
                }
            }
        }
        attr_list(&mut out, &attrs, st);
        out.push_str(&format!(
            "{}extern {}: {};\n",
            vis(&e["vis"]),
            s(&e["name"]),
            ty(&e["ty"], st)
        ));
    }
    for d in arr(&m["defs"]) {
        if s(&d["k"]) == "enum" {
            enum_def(&mut out, d, st);
        } else {
            type_def(&mut out, d, st);
        }
    }
    for i in arr(&m["impls"]) {
        // attributes written on the block itself (raw text)
        let battrs: Vec<String> = arr(&i["battrs"]).iter().map(|a| s(a).to_string()).collect();
        attr_list(&mut out, &battrs, st);
        out.push_str(&format!("impl {} {{\n", s(&i["name"])));
        let fs = arr(&i["funcs"]);
        for (k, f) in fs.iter().enumerate() {
            func(&mut out, f, st);
            if k + 1 < fs.len() || st.coin() || st.rng.is_none() {
                out.push(';');
            }
            out.push('\n');
        }
        out.push_str("}\n");
    }
    out
}
