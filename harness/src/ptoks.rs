//! C18 / C12 (positions): token sequences decided by spec/Parse.tla -> concrete text -> the real parser.
//!
//! Input records (spec/MC_Parse.tla, `Replay`): {toks: [encoded token], ok, at, gmod}.
//! Each sequence is printed with random legal trivia and literal spellings (the position of every
//! token is recorded), parsed by `pyxis::parser::parse_str`, and compared with the verdict of the
//! specification: accepted with exactly that abstract module, or rejected at that token.

use rand::{rngs::StdRng, Rng, SeedableRng};
use serde_json::{json, Value};
use std::io::{BufRead, BufWriter, Write};

use crate::gram;
use crate::render::{anchor, arr, s};

#[derive(Clone, Debug)]
enum Tok {
    Pu(String),
    Kw(String),
    Id(String),
    Int(i128),
    Str(String),
}

fn decode(e: &str) -> Tok {
    let (k, v) = e.split_at(1);
    match k {
        "p" => Tok::Pu(v.to_string()),
        "k" => Tok::Kw(v.to_string()),
        "i" => Tok::Id(v.to_string()),
        "n" => {
            let (a, d) = v.rsplit_once(',').unwrap();
            Tok::Int(anchor(a) + d.parse::<i128>().unwrap())
        }
        _ => Tok::Str(v.to_string()),
    }
}

fn int_text(n: i128, rng: &mut StdRng) -> String {
    let a = n.unsigned_abs();
    let body = match rng.gen_range(0..5) {
        0 => format!("{a}"),
        1 => format!("0x{a:X}"),
        2 => format!("0x{a:x}"),
        3 => format!("0b{a:b}"),
        _ => {
            let d = format!("{a}");
            if d.len() > 3 {
                format!("{}_{}", &d[..d.len() - 3], &d[d.len() - 3..])
            } else {
                format!("0o{a:o}")
            }
        }
    };
    if n < 0 {
        format!("-{body}")
    } else {
        body
    }
}

fn str_text(v: &str, rng: &mut StdRng) -> String {
    if !v.contains('"') && !v.contains('\\') && rng.gen_bool(0.5) {
        format!("r#\"{v}\"#")
    } else {
        format!("{v:?}")
    }
}

fn is_pu(t: &Tok, v: &str) -> bool {
    matches!(t, Tok::Pu(x) if x == v)
}

/// the length of the leading run of well-formed inner attributes `# ! [ ... ]` (token count)
fn leading_inner(toks: &[Tok]) -> usize {
    let mut i = 0;
    loop {
        if i + 2 < toks.len() && is_pu(&toks[i], "#") && is_pu(&toks[i + 1], "!") && is_pu(&toks[i + 2], "[") {
            // find the matching bracket
            let mut depth = 0usize;
            let mut j = i + 2;
            let mut close = None;
            while j < toks.len() {
                if let Tok::Pu(p) = &toks[j] {
                    if p == "[" || p == "(" || p == "{" {
                        depth += 1;
                    } else if p == "]" || p == ")" || p == "}" {
                        depth -= 1;
                        if depth == 0 {
                            close = Some(j);
                            break;
                        }
                    }
                }
                j += 1;
            }
            match close {
                Some(c) => i = c + 1,
                None => return i,
            }
        } else {
            return i;
        }
    }
}

/// Text of the sequence and, per token, the (line, column) where it starts (line 1-based, column 0-based).
fn render(toks: &[Tok], rng: &mut StdRng) -> (String, Vec<(usize, usize)>) {
    let seps = [" ", "\n", "  ", "\t", " /* c */ ", "\n// line comment\n", " /* multi\n line */ ", " "];
    let mut out = String::new();
    let mut pos = Vec::with_capacity(toks.len());
    let (mut line, mut col) = (1usize, 0usize);
    let lead = leading_inner(toks);
    let push = |out: &mut String, line: &mut usize, col: &mut usize, t: &str| {
        for c in t.chars() {
            if c == '\n' {
                *line += 1;
                *col = 0;
            } else {
                *col += 1;
            }
        }
        out.push_str(t);
    };
    let mut i = 0;
    while i < toks.len() {
        // `#[doc = "line"]` may be written as a doc comment (all its tokens then start where the comment starts)
        let glued_before = i > 0 && is_pu(&toks[i - 1], ":j");
        if is_pu(&toks[i], "#") && !glued_before && rng.gen_bool(0.4) {
            if let Some(v) = doc_line(toks, i + 1) {
                for _ in 0..6 {
                    pos.push((line, col));
                }
                push(&mut out, &mut line, &mut col, &format!("///{v}\n"));
                i += 6;
                continue;
            }
            // inner form, only inside the leading run of inner attributes
            if i < lead && i + 1 < toks.len() && is_pu(&toks[i + 1], "!") {
                if let Some(v) = doc_line(toks, i + 2) {
                    for _ in 0..7 {
                        pos.push((line, col));
                    }
                    push(&mut out, &mut line, &mut col, &format!("//!{v}\n"));
                    i += 7;
                    continue;
                }
            }
        }
        pos.push((line, col));
        let text = match &toks[i] {
            Tok::Pu(p) if p == ":j" => ":".to_string(),
            Tok::Pu(p) => p.clone(),
            Tok::Kw(k) => k.clone(),
            Tok::Id(n) => n.clone(),
            Tok::Int(n) => int_text(*n, rng),
            Tok::Str(v) => str_text(v, rng),
        };
        push(&mut out, &mut line, &mut col, &text);
        if !is_pu(&toks[i], ":j") {
            let sep = seps[rng.gen_range(0..seps.len())];
            push(&mut out, &mut line, &mut col, sep);
        }
        i += 1;
    }
    (out, pos)
}

/// the text of an encoded token sequence (spec/Parse.tla `EncAll`), with seeded random trivia and spellings
pub fn render_encoded(toks: &[Value], rng: &mut StdRng) -> String {
    let toks: Vec<Tok> = toks.iter().map(|t| decode(s(t))).collect();
    render(&toks, rng).0
}

/// `[ doc = "line" ]` at k, when the line can be written as a doc comment
fn doc_line(toks: &[Tok], k: usize) -> Option<&str> {
    if k + 4 < toks.len() && is_pu(&toks[k], "[") && matches!(&toks[k + 1], Tok::Id(n) if n == "doc") && is_pu(&toks[k + 2], "=") && is_pu(&toks[k + 4], "]") {
        if let Tok::Str(v) = &toks[k + 3] {
            if !v.contains('\n') && !v.contains('\r') && !v.starts_with('/') && !v.starts_with('!') {
                return Some(v.as_str());
            }
        }
    }
    None
}

pub fn run(args: &[String]) {
    let get = |name: &str| args.iter().position(|a| a == name).and_then(|i| args.get(i + 1).cloned());
    let inp = get("--in").expect("--in");
    let outp = get("--out").expect("--out");
    let k: u64 = get("--n").and_then(|s| s.parse().ok()).unwrap_or(1);
    let seed: u64 = get("--seed").and_then(|s| s.parse().ok()).unwrap_or(1);
    let mut out = BufWriter::new(std::fs::File::create(&outp).unwrap());
    let reader = std::io::BufReader::new(std::fs::File::open(inp).unwrap());
    for line in reader.lines() {
        let line = line.unwrap();
        if line.trim().is_empty() {
            continue;
        }
        let case: Value = serde_json::from_str(&line).unwrap();
        let id = case["id"].as_i64().unwrap_or(0);
        let toks: Vec<Tok> = arr(&case["toks"]).iter().map(|t| decode(s(t))).collect();
        let spec_ok = case["ok"].as_bool().unwrap_or(false);
        let at = case["at"].as_i64().unwrap_or(0) as usize;
        let expected = if spec_ok { Some(gram::to_grammar(&case["gmod"])) } else { None };
        let mut rec = json!({"id": id, "prints": 0, "spec_ok": spec_ok, "problems": []});
        for j in 0..k {
            let mut rng = StdRng::seed_from_u64(seed.wrapping_mul(1_000_003).wrapping_add((id as u64).wrapping_mul(131).wrapping_add(j)));
            let (text, pos) = render(&toks, &mut rng);
            rec["prints"] = json!(j + 1);
            let r = std::panic::catch_unwind(|| pyxis::parser::parse_str(&text));
            let mut problem = |kind: &str, detail: Value| {
                rec["problems"].as_array_mut().unwrap().push(json!({"kind": kind, "text": text, "detail": detail}));
            };
            match (r, &expected) {
                (Err(_), _) => problem("panic", json!({})),
                (Ok(Ok(got)), Some(exp)) => {
                    if &got != exp {
                        let (a, b) = (format!("{got:?}"), format!("{exp:?}"));
                        let p = a.chars().zip(b.chars()).position(|(x, y)| x != y).unwrap_or(0);
                        let lo = p.saturating_sub(60);
                        problem("different", json!({"got": a.chars().skip(lo).take(200).collect::<String>(), "expected": b.chars().skip(lo).take(200).collect::<String>()}));
                    }
                }
                (Ok(Err(e)), Some(_)) => {
                    let lc = e.span().start();
                    problem("rejected", json!({"error": e.to_string(), "line": lc.line, "col": lc.column}));
                }
                (Ok(Ok(_)), None) => problem("accepted", json!({"spec_at": at})),
                (Ok(Err(e)), None) => {
                    let lc = e.span().start();
                    if at >= 1 && at <= toks.len() {
                        let (l, c) = pos[at - 1];
                        if (lc.line, lc.column) != (l, c) {
                            problem("position", json!({"error": e.to_string(), "line": lc.line, "col": lc.column, "spec_at": at, "spec_line": l, "spec_col": c}));
                        }
                    } else if at == toks.len() + 1 {
                        // end of the text: syn reports the call site
                        rec["eof_pos"] = json!([lc.line, lc.column]);
                    } else {
                        rec["lex_pos"] = json!([lc.line, lc.column]);
                    }
                }
            }
        }
        serde_json::to_writer(&mut out, &rec).unwrap();
        out.write_all(b"\n").unwrap();
    }
    out.flush().unwrap();
}
