//! Run one abstract case through the real pyxis and collect every observable.

use std::collections::{BTreeSet, HashMap};
use std::panic::{catch_unwind, AssertUnwindSafe};
use std::path::{Path, PathBuf};

use pyxis::grammar::ItemPath;
use pyxis::semantic::SemanticState;
use serde_json::{json, Value};

use crate::render::{self, arr, s, Style};
use crate::{emitproj, project};

pub struct Opts {
    pub emit_dir: Option<PathBuf>,
    pub prefix: bool,
    pub project_files: bool,
    pub keep_text: bool,
    pub use_sched: bool,
    pub events: bool,
    pub via_fs: bool,
    pub dirty_out: bool,
}

fn fnv(data: &[u8]) -> String {
    let mut h1: u64 = 0xcbf29ce484222325;
    let mut h2: u64 = 0x84222325cbf29ce4;
    for b in data {
        h1 = (h1 ^ *b as u64).wrapping_mul(0x100000001b3);
        h2 = (h2.rotate_left(5) ^ *b as u64).wrapping_mul(0x9E3779B97F4A7C15);
    }
    format!("{h1:016x}{h2:016x}:{}", data.len())
}

fn item_path(prefix: Option<&str>, segs: &[Value]) -> ItemPath {
    let mut p = ItemPath::empty();
    if let Some(pre) = prefix {
        p.push(pre.into());
    }
    for seg in segs {
        p.push(s(seg).into());
    }
    p
}

fn classify(msg: &str) -> &'static str {
    // structural classes only; the wording of a message is never compared
    if msg.contains("will not terminate") {
        "nonterm"
    } else if msg.contains("failed to parse") {
        "parse"
    } else if msg.contains("failed to resolve") {
        "unresolved"
    } else {
        "other"
    }
}

/// the list of types inside the "will not terminate" error (C10 names it)
fn nonterm_list(msg: &str) -> Vec<String> {
    let Some(i) = msg.find("failed on types: [") else { return vec![] };
    let rest = &msg[i + "failed on types: [".len()..];
    let Some(j) = rest.find(']') else { return vec![] };
    rest[..j]
        .split(',')
        .map(|t| t.trim().trim_matches('"').to_string())
        .filter(|t| !t.is_empty())
        .collect()
}

fn walk(dir: &Path, base: &Path, out: &mut Vec<(String, PathBuf)>) {
    let Ok(rd) = std::fs::read_dir(dir) else { return };
    let mut entries: Vec<_> = rd.filter_map(|e| e.ok()).collect();
    entries.sort_by_key(|e| e.file_name());
    for e in entries {
        let p = e.path();
        if p.is_dir() {
            walk(&p, base, out);
        } else {
            out.push((p.strip_prefix(base).unwrap().to_string_lossy().to_string(), p));
        }
    }
}

/// uses are written relative to the crate root; with a case prefix the type/module paths
/// they denote move below the prefix
fn with_prefix(input: &Value, prefix: &str) -> Value {
    let mut inp = input.clone();
    if let Some(mods) = inp["mods"].as_array_mut() {
        for m in mods {
            if let Some(uses) = m["uses"].as_array_mut() {
                for u in uses {
                    if let Some(a) = u.as_array_mut() {
                        a.insert(0, json!(prefix));
                    }
                }
            }
        }
    }
    inp
}

fn strip_prefix_paths(v: &mut Value, prefix: &str) {
    fn strip_one(x: &mut Value, prefix: &str) {
        if let Some(a) = x.as_array_mut() {
            if a.first().and_then(|f| f.as_str()) == Some(prefix) {
                a.remove(0);
            }
        }
    }
    match v {
        Value::Object(m) => {
            for (k, x) in m.iter_mut() {
                if k == "p" || k == "path" {
                    strip_one(x, prefix);
                } else if k == "todo" {
                    if let Some(a) = x.as_array_mut() {
                        a.iter_mut().for_each(|y| strip_one(y, prefix));
                    }
                } else {
                    strip_prefix_paths(x, prefix);
                }
            }
        }
        Value::Array(a) => a.iter_mut().for_each(|x| strip_prefix_paths(x, prefix)),
        _ => {}
    }
}

pub fn run_case(case: &Value, opts: &Opts, style_seed: Option<u64>) -> Value {
    let id = case["id"].clone();
    let prefix_s = format!("c{}", id.as_i64().unwrap_or(0));
    let prefix = opts.prefix.then_some(prefix_s.as_str());
    let input = match prefix {
        Some(p) => with_prefix(&case["input"], p),
        None => case["input"].clone(),
    };
    let ptr = input["ptr"].as_u64().unwrap_or(8) as usize;
    let mods = arr(&input["mods"]);
    let mut obs = json!({"id": id});

    // render
    let mut rng = style_seed.map(|sd| <rand::rngs::StdRng as rand::SeedableRng>::seed_from_u64(sd));
    // a case may carry the concrete text of its (single) module as a token sequence of the language specification
    // (spec/MC_Pipe.tla): the input record is then what the specification elaborates that text to
    let texts: Vec<String> = if let Some(toks) = case.get("toks").and_then(|t| t.as_array()) {
        let mut trng = <rand::rngs::StdRng as rand::SeedableRng>::seed_from_u64(style_seed.unwrap_or(1) ^ (id.as_i64().unwrap_or(0) as u64).wrapping_mul(0x9E37_79B9));
        vec![crate::ptoks::render_encoded(toks, &mut trng)]
    } else {
        mods.iter()
            .map(|m| render::module(m, &mut Style { rng: rng.as_mut() }))
            .collect()
    };
    if opts.keep_text {
        obs["texts"] = json!(texts);
    }

    // module addition order: 1-based indices from the behaviour, default source order
    let order: Vec<usize> = if arr(&case["order"]).is_empty() {
        (0..mods.len()).collect()
    } else {
        arr(&case["order"]).iter().map(|i| i.as_u64().unwrap_or(1) as usize - 1).collect()
    };

    // schedule: one permutation per pass, keyed by the unresolved set
    let mut sched_map: HashMap<BTreeSet<ItemPath>, Vec<ItemPath>> = HashMap::new();
    if opts.use_sched {
        for pass in arr(&case["sched"]) {
            // pass = {s: unresolved set at the start of the pass, p: the picks taken (a prefix when
            // the behaviour ended inside the pass)}; the rest follows in sorted order
            let picks: Vec<ItemPath> = arr(&pass["p"]).iter().map(|p| item_path(prefix, arr(p))).collect();
            let set: BTreeSet<ItemPath> = arr(&pass["s"]).iter().map(|p| item_path(prefix, arr(p))).collect();
            let mut order = picks.clone();
            for p in &set {
                if !picks.contains(p) {
                    order.push(p.clone());
                }
            }
            sched_map.entry(set).or_insert(order);
        }
        let misses = std::rc::Rc::new(std::cell::Cell::new(0usize));
        let m2 = misses.clone();
        pyxis::verif::set_schedule(Some(Box::new(move |sorted: Vec<ItemPath>| {
            let key: BTreeSet<ItemPath> = sorted.iter().cloned().collect();
            match sched_map.get(&key) {
                Some(v) => v.clone(),
                None => {
                    if !sorted.is_empty() {
                        m2.set(m2.get() + 1);
                    }
                    sorted
                }
            }
        })));
        obs["sched_misses_cell"] = json!(0);
        // read back after the build (below) through the Rc
        SCHED_MISSES.with(|c| *c.borrow_mut() = Some(misses));
    } else {
        pyxis::verif::set_schedule(None);
    }
    if opts.events {
        pyxis::verif::start_recording();
    }

    let emit_dir = opts.emit_dir.as_ref().map(|d| d.join(&prefix_s));
    if let Some(d) = &emit_dir {
        let _ = std::fs::remove_dir_all(d);
    }

    let result = catch_unwind(AssertUnwindSafe(|| -> Result<Value, (String, String)> {
        if opts.via_fs {
            // through the file system and pyxis::build (C14)
            let root = emit_dir.clone().expect("--via-fs needs --emit-dir");
            // style "script": the entry point of a build script, which reads the fixed directory `types`
            let script = s(&input["indir"]) == "script";
            let in_dir = root.join(if script { "types" } else { "input" });
            let out_dir = root.join("out");
            for (m, text) in mods.iter().zip(&texts) {
                let mut p = in_dir.clone();
                let segs = arr(&m["path"]);
                for seg in &segs[..segs.len().saturating_sub(1)] {
                    p.push(s(seg));
                }
                // not set_extension: the stem may contain dots
                p.push(format!("{}.pyxis", segs.last().map(s).unwrap_or("")));
                std::fs::create_dir_all(p.parent().unwrap()).unwrap();
                std::fs::write(&p, text).unwrap();
            }
            std::fs::create_dir_all(&in_dir).unwrap();
            // the input directory may be spelled relative to the current directory, with `./` or a trailing slash
            let saved_cwd = std::env::current_dir().unwrap();
            let in_dir = match s(&input["indir"]) {
                "dot" => {
                    std::env::set_current_dir(&root).unwrap();
                    PathBuf::from("./input")
                }
                "trailing" => {
                    std::env::set_current_dir(&root).unwrap();
                    PathBuf::from("input/")
                }
                _ => in_dir.clone(),
            };
            struct Restore(PathBuf);
            impl Drop for Restore {
                fn drop(&mut self) {
                    let _ = std::env::set_current_dir(&self.0);
                }
            }
            let _restore = Restore(saved_cwd);
            if script {
                std::env::set_current_dir(&root).unwrap();
                std::env::set_var("OUT_DIR", root.join("cargo_out"));
                std::env::set_var("CARGO_CFG_TARGET_POINTER_WIDTH", (ptr * 8).to_string());
                if opts.dirty_out {
                    let _ = pyxis::build(&in_dir, &out_dir, if ptr == 8 { 4 } else { 8 });
                }
                pyxis::build_script(Some(&out_dir)).map_err(|e| ("build".to_string(), format!("{e:#}")))?;
                return Ok(json!({"reg": []}));
            }
            if opts.dirty_out {
                // the output directory already holds the result of another build (the other pointer width)
                let _ = pyxis::build(&in_dir, &out_dir, if ptr == 8 { 4 } else { 8 });
            }
            pyxis::build(&in_dir, &out_dir, ptr).map_err(|e| ("build".to_string(), format!("{e:#}")))?;
            return Ok(json!({"reg": []}));
        }
        let mut st = SemanticState::new(ptr);
        ADDS.with(|a| a.borrow_mut().clear());
        for &mi in &order {
            let m = &mods[mi];
            let parsed = pyxis::parser::parse_str(&texts[mi]).map_err(|e| {
                let lc = e.span().start();
                ("parse".to_string(), format!("{}:{}:{} {e}", mi, lc.line, lc.column + 1))
            })?;
            let r = st.add_module(&parsed, &item_path(prefix, arr(&m["path"])));
            ADDS.with(|a| a.borrow_mut().push((mi + 1, r.is_ok())));
            r.map_err(|e| ("add".to_string(), format!("{e:#}")))?;
        }
        let resolved = st.build().map_err(|e| ("build".to_string(), format!("{e:#}")))?;
        // registry projection through the public API
        let mut reg = vec![];
        let mut keys: Vec<&ItemPath> = resolved.modules().keys().collect();
        keys.sort();
        for k in &keys {
            if k.is_empty() {
                continue;
            }
            let module = &resolved.modules()[*k];
            let mut paths: Vec<&ItemPath> = module.definition_paths().iter().collect();
            paths.sort();
            for p in paths {
                if let Some(it) = resolved.type_registry().get(p) {
                    reg.push(project::item(it));
                }
            }
        }
        if let Some(d) = &emit_dir {
            // with a case prefix the module keys already start with c<id>
            let d = if prefix.is_some() { d.parent().unwrap().to_path_buf() } else { d.clone() };
            for k in keys {
                pyxis::backends::rust::write_module(&d, k, &resolved, &resolved.modules()[k])
                    .map_err(|e| ("emit".to_string(), format!("{e:#}")))?;
            }
        }
        Ok(json!({"reg": reg}))
    }));

    pyxis::verif::set_schedule(None);
    if opts.use_sched {
        let n = SCHED_MISSES.with(|c| c.borrow_mut().take().map(|r| r.get()).unwrap_or(0));
        obs.as_object_mut().unwrap().remove("sched_misses_cell");
        obs["sched_misses"] = json!(n);
    }
    if opts.events {
        let evs = pyxis::verif::take_events();
        obs["events"] = Value::Array(
            evs.iter()
                .map(|e| match e {
                    pyxis::verif::Event::PassBegin(v) => json!({"e": "pass_begin", "todo": v.iter().map(project::path).collect::<Vec<_>>()}),
                    pyxis::verif::Event::AttemptBegin(p) => json!({"e": "attempt_begin", "p": project::path(p)}),
                    pyxis::verif::Event::AttemptEnd(p, r) => json!({"e": "attempt_end", "p": project::path(p), "resolved": r}),
                    pyxis::verif::Event::PassEnd => json!({"e": "pass_end"}),
                    pyxis::verif::Event::ItemAdded(p, c, r) => json!({"e": "item_added", "p": project::path(p), "cat": c, "replaced": r}),
                })
                .filter(|e| e["cat"] != json!("Predefined"))
                .collect(),
        );
    }

    obs["adds"] = ADDS.with(|a| Value::Array(a.borrow().iter().map(|(mi, ok)| json!([mi, ok])).collect()));
    match result {
        Err(p) => {
            let msg = p
                .downcast_ref::<String>()
                .cloned()
                .or_else(|| p.downcast_ref::<&str>().map(|t| t.to_string()))
                .unwrap_or_else(|| "<non-string panic>".to_string());
            obs["outcome"] = json!("panic");
            obs["accepted"] = json!(false);
            obs["msg"] = json!(msg);
        }
        Ok(Err((stage, msg))) => {
            obs["outcome"] = json!("err");
            obs["accepted"] = json!(false);
            obs["stage"] = json!(stage);
            obs["class"] = json!(classify(&msg));
            if classify(&msg) == "nonterm" {
                obs["nonterm"] = json!(nonterm_list(&msg));
            }
            obs["msg"] = json!(msg.chars().take(400).collect::<String>());
        }
        Ok(Ok(v)) => {
            obs["outcome"] = json!("ok");
            obs["accepted"] = json!(true);
            obs["reg"] = v["reg"].clone();
        }
    }

    // emitted files (also after an error: a failed emission may leave files behind)
    if let Some(d) = &emit_dir {
        let base = if opts.via_fs { d.join("out") } else { d.clone() };
        let mut files = vec![];
        walk(&base, &base, &mut files);
        let mut fv = vec![];
        for (rel, p) in files {
            let bytes = std::fs::read(&p).unwrap_or_default();
            let mut rec = json!({"rel": rel, "hash": fnv(&bytes)});
            if opts.project_files {
                match std::str::from_utf8(&bytes).map_err(|e| e.to_string()).and_then(emitproj::file) {
                    Ok(pr) => rec["proj"] = pr,
                    Err(e) => rec["proj_err"] = json!(e),
                }
            }
            fv.push(rec);
        }
        obs["files"] = Value::Array(fv);
    }
    if let Some(p) = prefix {
        strip_prefix_paths(&mut obs, p);
    }
    obs
}

thread_local! {
    static ADDS: std::cell::RefCell<Vec<(usize, bool)>> = const { std::cell::RefCell::new(vec![]) };
    static SCHED_MISSES: std::cell::RefCell<Option<std::rc::Rc<std::cell::Cell<usize>>>> = const { std::cell::RefCell::new(None) };
}
