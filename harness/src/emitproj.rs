//! Static projection of an emitted .rs file (parsed with syn) onto the abstract file of
//! spec/Emit.tla.  Anything whose shape is not recognised is reported as `unknown`
//! (never as a fact), so that an equivalent re-formulation of the emitted code cannot
//! raise an alarm by itself.

use quote::ToTokens;
use serde_json::{json, Map, Value};
use syn::{Expr, FnArg, ImplItem, Item, Lit, Pat, ReturnType, Stmt, Type, Visibility};

use crate::render::NONE;

fn vis(v: &Visibility) -> &'static str {
    match v {
        Visibility::Public(_) => "pub",
        _ => "priv",
    }
}

fn docs(attrs: &[syn::Attribute]) -> Value {
    let mut out = vec![];
    for a in attrs {
        if a.path().is_ident("doc") {
            if let syn::Meta::NameValue(nv) = &a.meta {
                if let Expr::Lit(l) = &nv.value {
                    if let Lit::Str(s) = &l.lit {
                        out.push(json!(s.value()));
                    }
                }
            }
        }
    }
    Value::Array(out)
}

fn lit_int(e: &Expr) -> Option<i128> {
    match e {
        Expr::Lit(l) => match &l.lit {
            Lit::Int(i) => i.base10_parse::<i128>().ok(),
            _ => None,
        },
        Expr::Unary(u) if matches!(u.op, syn::UnOp::Neg(_)) => lit_int(&u.expr).map(|n| -n),
        Expr::Paren(p) => lit_int(&p.expr),
        Expr::Group(g) => lit_int(&g.expr),
        _ => None,
    }
}

fn int_json(n: i128) -> Value {
    if n >= i64::MIN as i128 && n <= i64::MAX as i128 {
        json!(n as i64)
    } else {
        json!(n.to_string())
    }
}

pub fn ty(t: &Type) -> Value {
    match t {
        Type::Path(p) => {
            let segs: Vec<String> = p.path.segments.iter().map(|s| s.ident.to_string()).collect();
            let generic = p
                .path
                .segments
                .iter()
                .any(|s| !matches!(s.arguments, syn::PathArguments::None));
            if generic {
                return json!({"k": "generic", "text": t.to_token_stream().to_string()});
            }
            let strs: Vec<&str> = segs.iter().map(|s| s.as_str()).collect();
            match strs.as_slice() {
                // the C `void`, whichever standard path spells it
                ["std", "ffi", "c_void"] | ["core", "ffi", "c_void"] | ["std", "os", "raw", "c_void"] | ["core", "os", "raw", "c_void"] => {
                    json!({"k": "raw", "p": ["void"]})
                }
                ["Self"] => json!({"k": "self"}),
                ["crate", rest @ ..] => json!({"k": "raw", "p": rest}),
                other => json!({"k": "raw", "p": other}),
            }
        }
        Type::Ptr(p) => {
            if p.mutability.is_some() {
                json!({"k": "mptr", "t": ty(&p.elem)})
            } else {
                json!({"k": "cptr", "t": ty(&p.elem)})
            }
        }
        Type::Array(a) => match lit_int(&a.len) {
            Some(n) => json!({"k": "arr", "t": ty(&a.elem), "len": int_json(n)}),
            None => json!({"k": "unknown", "text": t.to_token_stream().to_string()}),
        },
        Type::BareFn(f) => json!({
            "k": "fn",
            "cc": f.abi.as_ref().and_then(|a| a.name.as_ref()).map(|n| n.value()).unwrap_or_default(),
            "unsafe": f.unsafety.is_some(),
            "args": f.inputs.iter().map(|a| json!({
                "name": a.name.as_ref().map(|(i, _)| i.to_string()).unwrap_or_default(),
                "ty": ty(&a.ty)})).collect::<Vec<_>>(),
            "ret": match &f.output { ReturnType::Default => json!({"k": "none"}), ReturnType::Type(_, t) => ty(t) },
        }),
        Type::Reference(r) => json!({
            "k": if r.mutability.is_some() { "mref" } else { "cref" },
            "life": r.lifetime.as_ref().map(|l| l.ident.to_string()).unwrap_or_default(),
            "t": ty(&r.elem)}),
        Type::Paren(p) => ty(&p.elem),
        Type::Group(g) => ty(&g.elem),
        other => json!({"k": "unknown", "text": other.to_token_stream().to_string()}),
    }
}

fn strip(e: &Expr) -> &Expr {
    match e {
        Expr::Paren(p) => strip(&p.expr),
        Expr::Group(g) => strip(&g.expr),
        other => other,
    }
}

fn is_self(e: &Expr) -> bool {
    matches!(strip(e), Expr::Path(p) if p.path.is_ident("self"))
}

/// `self as *const Self as _` | `self as *mut Self as _` | `ident`
fn call_arg(e: &Expr) -> Value {
    let e = strip(e);
    if let Expr::Path(p) = e {
        if let Some(i) = p.path.get_ident() {
            return json!({"k": "named", "name": i.to_string()});
        }
    }
    if let Expr::Cast(outer) = e {
        if matches!(&*outer.ty, Type::Infer(_)) {
            if let Expr::Cast(inner) = strip(&outer.expr) {
                if is_self(&inner.expr) {
                    if let Type::Ptr(p) = &*inner.ty {
                        if matches!(&*p.elem, Type::Path(tp) if tp.path.is_ident("Self")) {
                            return json!({"k": if p.mutability.is_some() { "mself" } else { "cself" }, "name": ""});
                        }
                    }
                }
            }
        }
    }
    json!({"k": "unknown", "text": e.to_token_stream().to_string()})
}

/// `<local>(args)`: the name of the local that is called and the arguments
fn call_of_f(s: &Stmt) -> Option<(String, Vec<Value>)> {
    if let Stmt::Expr(Expr::Call(c), _) = s {
        if let Expr::Path(p) = strip(&c.func) {
            if let Some(i) = p.path.get_ident() {
                return Some((i.to_string(), c.args.iter().map(call_arg).collect()));
            }
        }
    }
    None
}

fn unknown_body(b: &syn::Block) -> Value {
    json!({"k": "unknown", "text": b.to_token_stream().to_string()})
}

/// classify a wrapper body
fn body(b: &syn::Block) -> Value {
    let stmts = &b.stmts;
    // forwarded: self.<field>.<fn>(args)
    if stmts.len() == 1 {
        // forwarded without receiver: <FieldType>::<fn>(args); the field is looked up by its type where the struct is known
        if let Stmt::Expr(Expr::Call(c), None) = &stmts[0] {
            if let Expr::Path(p) = strip(&c.func) {
                if let (Some(q), 1) = (&p.qself, p.path.segments.len()) {
                    if q.position == 0 {
                        return json!({"k": "field", "a": NONE, "f": "", "fn": p.path.segments[0].ident.to_string(), "static_via": ty(&q.ty),
                                      "callargs": c.args.iter().map(call_arg).collect::<Vec<_>>()});
                    }
                }
            }
        }
        if let Stmt::Expr(Expr::MethodCall(mc), None) = &stmts[0] {
            if let Expr::Field(fe) = strip(&mc.receiver) {
                if is_self(&fe.base) {
                    if let syn::Member::Named(field) = &fe.member {
                        return json!({"k": "field", "a": NONE, "f": field.to_string(), "fn": mc.method.to_string(),
                                      "callargs": mc.args.iter().map(call_arg).collect::<Vec<_>>()});
                    }
                }
            }
        }
        return unknown_body(b);
    }
    if stmts.len() != 2 {
        return unknown_body(b);
    }
    // the local may have any name (pyxis picks one that no argument has); the call must go through it
    let Some((local_name, callargs)) = call_of_f(&stmts[1]) else { return unknown_body(b) };
    let Stmt::Local(local) = &stmts[0] else { return unknown_body(b) };
    let Some(init) = &local.init else { return unknown_body(b) };
    match &local.pat {
        // let f: <fn type> = ::std::mem::transmute(<addr> as usize);
        Pat::Type(pt) if matches!(&*pt.pat, Pat::Ident(i) if i.ident == local_name.as_str()) => {
            let Expr::Call(c) = strip(&init.expr) else { return unknown_body(b) };
            let callee = c.func.to_token_stream().to_string().replace(' ', "");
            if !(callee.ends_with("mem::transmute")) || c.args.len() != 1 {
                return unknown_body(b);
            }
            let Expr::Cast(cast) = strip(&c.args[0]) else { return unknown_body(b) };
            if !matches!(&*cast.ty, Type::Path(p) if p.path.is_ident("usize")) {
                return unknown_body(b);
            }
            let Some(addr) = lit_int(&cast.expr) else { return unknown_body(b) };
            json!({"k": "addr", "a": int_json(addr), "f": "", "fn": "", "fnty": ty(&pt.ty), "callargs": callargs})
        }
        // let f = std::ptr::addr_of!((*self.vftable()).<name>).read();
        Pat::Ident(i) if i.ident == local_name.as_str() => {
            let Expr::MethodCall(read) = strip(&init.expr) else { return unknown_body(b) };
            if read.method != "read" || !read.args.is_empty() {
                return unknown_body(b);
            }
            let Expr::Macro(m) = strip(&read.receiver) else { return unknown_body(b) };
            let mp = m.mac.path.to_token_stream().to_string().replace(' ', "");
            if !mp.ends_with("ptr::addr_of") {
                return unknown_body(b);
            }
            let Ok(inner) = syn::parse2::<Expr>(m.mac.tokens.clone()) else { return unknown_body(b) };
            let Expr::Field(fe) = strip(&inner) else { return unknown_body(b) };
            let syn::Member::Named(slot) = &fe.member else { return unknown_body(b) };
            let Expr::Unary(u) = strip(&fe.base) else { return unknown_body(b) };
            if !matches!(u.op, syn::UnOp::Deref(_)) {
                return unknown_body(b);
            }
            let Expr::MethodCall(vc) = strip(&u.expr) else { return unknown_body(b) };
            if vc.method != "vftable" || !is_self(&vc.receiver) || !vc.args.is_empty() {
                return unknown_body(b);
            }
            json!({"k": "vft", "a": NONE, "f": "", "fn": slot.to_string(), "callargs": callargs})
        }
        _ => unknown_body(b),
    }
}

fn method(f: &syn::ImplItemFn) -> Value {
    let args: Vec<Value> = f
        .sig
        .inputs
        .iter()
        .map(|a| match a {
            FnArg::Receiver(r) => {
                if r.reference.is_some() {
                    json!({"k": if r.mutability.is_some() { "mself" } else { "cself" }, "name": "", "ty": {"k": "none"}})
                } else {
                    json!({"k": "unknown", "name": "self", "ty": {"k": "none"}})
                }
            }
            FnArg::Typed(t) => {
                let name = match &*t.pat {
                    Pat::Ident(i) => i.ident.to_string(),
                    other => other.to_token_stream().to_string(),
                };
                json!({"k": "named", "name": name, "ty": ty(&t.ty)})
            }
        })
        .collect();
    json!({
        "name": f.sig.ident.to_string(), "vis": vis(&f.vis), "doc": docs(&f.attrs),
        "unsafe": f.sig.unsafety.is_some(), "args": args,
        "ret": match &f.sig.output { ReturnType::Default => json!({"k": "none"}), ReturnType::Type(_, t) => ty(t) },
        "body": body(&f.block),
    })
}

fn repr_and_derives(attrs: &[syn::Attribute]) -> (Value, Vec<String>) {
    let mut repr = json!({"c": false, "packed": false, "align": NONE, "int": ""});
    let mut derives = vec![];
    for a in attrs {
        if a.path().is_ident("repr") {
            let _ = a.parse_nested_meta(|m| {
                if m.path.is_ident("C") {
                    repr["c"] = json!(true);
                } else if m.path.is_ident("packed") {
                    repr["packed"] = json!(true);
                    if m.input.peek(syn::token::Paren) {
                        let c;
                        syn::parenthesized!(c in m.input);
                        let l: syn::LitInt = c.parse()?;
                        repr["packedN"] = json!(l.base10_parse::<i64>()?);
                    }
                } else if m.path.is_ident("align") {
                    let c;
                    syn::parenthesized!(c in m.input);
                    let l: syn::LitInt = c.parse()?;
                    repr["align"] = json!(l.base10_parse::<i64>()?);
                } else {
                    repr["int"] = json!(m.path.to_token_stream().to_string().replace(' ', ""));
                }
                Ok(())
            });
            // repr(<type that is not a plain path>) e.g. repr(*const u8): keep the text
            if repr["c"] == json!(false) && repr["int"] == json!("") {
                if let syn::Meta::List(l) = &a.meta {
                    repr["int"] = json!(l.tokens.to_string());
                }
            }
        } else if a.path().is_ident("derive") {
            let _ = a.parse_nested_meta(|m| {
                derives.push(m.path.to_token_stream().to_string().replace(' ', ""));
                Ok(())
            });
        }
    }
    (repr, derives)
}

/// the size literal of `::std::mem::transmute::<[u8; N], T>([0u8; N])` inside a size check fn
fn size_check(f: &syn::ItemFn) -> Option<(i128, String)> {
    let text = f.block.to_token_stream().to_string();
    // find the turbofish generic arguments with syn rather than text: walk statements
    fn find(e: &Expr) -> Option<(i128, String)> {
        match e {
            Expr::Unsafe(u) => u.block.stmts.iter().find_map(|s| match s {
                Stmt::Expr(e, _) => find(e),
                _ => None,
            }),
            Expr::Call(c) => {
                if let Expr::Path(p) = strip(&c.func) {
                    let last = p.path.segments.last()?;
                    if last.ident == "transmute" {
                        if let syn::PathArguments::AngleBracketed(ab) = &last.arguments {
                            let mut it = ab.args.iter();
                            if let (Some(syn::GenericArgument::Type(Type::Array(a))), Some(syn::GenericArgument::Type(t))) =
                                (it.next(), it.next())
                            {
                                return Some((lit_int(&a.len)?, t.to_token_stream().to_string()));
                            }
                        }
                    }
                }
                None
            }
            _ => None,
        }
    }
    let _ = text;
    f.block.stmts.iter().find_map(|s| match s {
        Stmt::Expr(e, _) => find(e),
        _ => None,
    })
}

/// address literal inside an accessor body: the first integer literal that is cast to a pointer
/// type; returns (address, number of `*` dereferences in the body, the pointer type it is cast
/// to, whether `.as_mut()` is called)
fn first_cast_literal(b: &syn::Block) -> Option<(i128, usize, Value, bool)> {
    struct V {
        addr: Option<i128>,
        cast: Value,
        derefs: usize,
        as_mut: bool,
    }
    impl<'ast> syn::visit::Visit<'ast> for V {
        fn visit_expr_cast(&mut self, c: &'ast syn::ExprCast) {
            if self.addr.is_none() {
                if let Some(n) = lit_int(&c.expr) {
                    if matches!(&*c.ty, Type::Ptr(_)) {
                        self.addr = Some(n);
                        self.cast = ty(&c.ty);
                    }
                }
            }
            syn::visit::visit_expr_cast(self, c);
        }
        fn visit_expr_unary(&mut self, u: &'ast syn::ExprUnary) {
            if matches!(u.op, syn::UnOp::Deref(_)) {
                self.derefs += 1;
            }
            syn::visit::visit_expr_unary(self, u);
        }
        fn visit_expr_method_call(&mut self, m: &'ast syn::ExprMethodCall) {
            if m.method == "as_mut" {
                self.as_mut = true;
            }
            syn::visit::visit_expr_method_call(self, m);
        }
    }
    let mut v = V { addr: None, cast: json!({"k": "none"}), derefs: 0, as_mut: false };
    syn::visit::visit_block(&mut v, b);
    v.addr.map(|a| (a, v.derefs, v.cast, v.as_mut))
}

/// the single tail expression of a block, looking through one `unsafe { .. }`
fn sole_expr(b: &syn::Block) -> Option<&Expr> {
    if b.stmts.len() != 1 {
        return None;
    }
    let Stmt::Expr(e, None) = &b.stmts[0] else { return None };
    match strip(e) {
        Expr::Unsafe(u) => sole_expr(&u.block),
        other => Some(other),
    }
}

/// the statements of a block, looking through one enclosing `unsafe { .. }`
fn inner_stmts(b: &syn::Block) -> &Vec<Stmt> {
    if b.stmts.len() == 1 {
        if let Stmt::Expr(e, None) = &b.stmts[0] {
            if let Expr::Unsafe(u) = strip(e) {
                return &u.block.stmts;
            }
        }
    }
    &b.stmts
}

fn deref_of(e: &Expr) -> Option<&Expr> {
    match strip(e) {
        Expr::Unary(u) if matches!(u.op, syn::UnOp::Deref(_)) => Some(strip(&u.expr)),
        _ => None,
    }
}

fn lit_cast(e: &Expr) -> Option<(i128, &Type)> {
    match strip(e) {
        Expr::Cast(c) => lit_int(&c.expr).map(|n| (n, &*c.ty)),
        _ => None,
    }
}

/// exactly the emitted shape of an extern-value accessor: `&mut *(LIT as *mut T)`
fn accessor_template(b: &syn::Block) -> bool {
    let Some(Expr::Reference(r)) = sole_expr(b) else { return false };
    if r.mutability.is_none() {
        return false;
    }
    let Some(inner) = deref_of(&r.expr) else { return false };
    matches!(lit_cast(inner), Some((_, Type::Ptr(p))) if p.mutability.is_some())
}

/// `let ptr: *mut Self = *(LIT as *mut *mut Self); ptr.as_mut()`
fn struct_singleton_template(b: &syn::Block) -> bool {
    let st = inner_stmts(b);
    if st.len() != 2 {
        return false;
    }
    let Stmt::Local(l) = &st[0] else { return false };
    let Some(init) = &l.init else { return false };
    let Some(inner) = deref_of(&init.expr) else { return false };
    if lit_cast(inner).is_none() {
        return false;
    }
    let Stmt::Expr(Expr::MethodCall(m), None) = &st[1] else { return false };
    m.method == "as_mut" && m.args.is_empty() && matches!(strip(&m.receiver), Expr::Path(_))
}

/// `*(LIT as *const Self)` or `::std::ptr::read(LIT as *const Self)`
fn enum_singleton_template(b: &syn::Block) -> bool {
    let Some(e) = sole_expr(b) else { return false };
    if let Expr::Call(c) = e {
        let is_read = matches!(strip(&c.func), Expr::Path(p) if p.path.segments.last().is_some_and(|s| s.ident == "read"));
        return is_read && c.args.len() == 1 && lit_cast(&c.args[0]).is_some();
    }
    let Some(inner) = deref_of(e) else { return false };
    lit_cast(inner).is_some()
}

pub fn file(src: &str) -> Result<Value, String> {
    let f = syn::parse_file(src).map_err(|e| format!("syn: {e}"))?;
    let mut top: Vec<Value> = vec![];
    let mut items: Map<String, Value> = Map::new();
    let mut evals: Vec<Value> = vec![];
    let mut foreign: Vec<Value> = vec![];
    let ensure = |items: &mut Map<String, Value>, name: &str| {
        if !items.contains_key(name) {
            items.insert(
                name.to_string(),
                json!({"k": "none", "count": 0, "sizecheck": NONE, "singleton": NONE, "singleton_vis": "",
                       "singleton_kind": "", "singleton_derefs": 0,
                       "vftacc": {"has": false, "via": "", "ty": {"k": "none"}, "count": 0},
                       "methods": [], "asrefs": [], "asmuts": [], "conflicts": [], "impl_blocks": 0}),
            );
        }
    };
    for (idx, it) in f.items.iter().enumerate() {
        match it {
            Item::Struct(s) => {
                let name = s.ident.to_string();
                ensure(&mut items, &name);
                let (repr, derives) = repr_and_derives(&s.attrs);
                let e = items.get_mut(&name).unwrap();
                e["count"] = json!(e["count"].as_i64().unwrap_or(0) + 1);
                e["k"] = json!("struct");
                e["vis"] = json!(vis(&s.vis));
                e["doc"] = docs(&s.attrs);
                e["repr"] = repr;
                e["derives"] = json!(derives);
                e["fields"] = Value::Array(
                    s.fields
                        .iter()
                        .map(|fd| {
                            json!({"name": fd.ident.as_ref().map(|i| i.to_string()).unwrap_or_default(),
                                   "vis": vis(&fd.vis), "doc": docs(&fd.attrs), "ty": ty(&fd.ty)})
                        })
                        .collect(),
                );
                {
                    // the bare definition (repr attribute only) for the no_core layout dump
                    let mut bare = s.clone();
                    bare.attrs.retain(|a| a.path().is_ident("repr"));
                    for fd in bare.fields.iter_mut() {
                        fd.attrs.clear();
                    }
                    e["deftext"] = json!(bare.to_token_stream().to_string());
                }
                top.push(json!({"kind": "struct", "name": name, "idx": idx}));
            }
            Item::Enum(en) => {
                let name = en.ident.to_string();
                ensure(&mut items, &name);
                let (repr, derives) = repr_and_derives(&en.attrs);
                let e = items.get_mut(&name).unwrap();
                e["count"] = json!(e["count"].as_i64().unwrap_or(0) + 1);
                e["k"] = json!("enum");
                e["vis"] = json!(vis(&en.vis));
                e["doc"] = docs(&en.attrs);
                e["repr"] = repr;
                e["derives"] = json!(derives);
                e["vars"] = Value::Array(
                    en.variants
                        .iter()
                        .map(|v| {
                            // `<lit>isize as _`
                            let val = v.discriminant.as_ref().and_then(|(_, e)| match strip(e) {
                                Expr::Cast(c) => lit_int(&c.expr),
                                other => lit_int(other),
                            });
                            // a discriminant that is written but not as a literal is not read off the text
                            let unread = v.discriminant.is_some() && val.is_none();
                            json!({"name": v.ident.to_string(),
                                   "val": if unread { json!("unknown") } else { val.map(int_json).unwrap_or(json!(NONE)) },
                                   "dflt": v.attrs.iter().any(|a| a.path().is_ident("default")),
                                   "doc": docs(&v.attrs)})
                        })
                        .collect(),
                );
                {
                    let mut bare = en.clone();
                    bare.attrs.retain(|a| a.path().is_ident("repr"));
                    for v in bare.variants.iter_mut() {
                        v.attrs.clear();
                    }
                    e["deftext"] = json!(bare.to_token_stream().to_string());
                }
                top.push(json!({"kind": "enum", "name": name, "idx": idx}));
            }
            Item::Fn(func) => {
                let name = func.sig.ident.to_string();
                if let Some(owner) = name.strip_prefix('_').and_then(|n| n.strip_suffix("_size_check")) {
                    if let Some((n, target)) = size_check(func) {
                        ensure(&mut items, owner);
                        let e = items.get_mut(owner).unwrap();
                        e["sizecheck"] = int_json(n);
                        e["sizecheck_target"] = json!(target);
                        top.push(json!({"kind": "sizecheck", "name": owner, "idx": idx}));
                        continue;
                    }
                }
                if let Some(ev) = name.strip_prefix("get_") {
                    if func.sig.inputs.is_empty() {
                        let ret = match &func.sig.output {
                            ReturnType::Default => json!({"k": "none"}),
                            ReturnType::Type(_, t) => ty(t),
                        };
                        let lit = first_cast_literal(&func.block);
                        evals.push(json!({"name": ev, "vis": vis(&func.vis), "ret": ret,
                                          "addr": lit.as_ref().map(|l| int_json(l.0)).unwrap_or(json!(NONE)),
                                          "derefs": lit.as_ref().map(|l| l.1).unwrap_or(0),
                                          "cast": lit.as_ref().map(|l| l.2.clone()).unwrap_or(json!({"k": "none"})),
                                          // body parameters are judged only for the emitted template; any other
                                          // shape is decided by executing the accessor, never by reading it
                                          "shape": if accessor_template(&func.block) { "template" } else { "unknown" },
                                          "unsafe": func.sig.unsafety.is_some()}));
                        top.push(json!({"kind": "accessor", "name": ev, "idx": idx}));
                        continue;
                    }
                }
                foreign.push(json!({"idx": idx, "kind": "fn", "name": name, "text": it.to_token_stream().to_string()}));
                top.push(json!({"kind": "foreign", "name": name, "idx": idx}));
            }
            Item::Impl(im) => {
                let self_ty = match &*im.self_ty {
                    Type::Path(p) => p.path.segments.last().map(|s| s.ident.to_string()).unwrap_or_default(),
                    other => other.to_token_stream().to_string(),
                };
                ensure(&mut items, &self_ty);
                if let Some((_, tr, _)) = &im.trait_ {
                    let last = tr.segments.last().unwrap();
                    let tname = last.ident.to_string();
                    let target = match &last.arguments {
                        syn::PathArguments::AngleBracketed(ab) => match ab.args.first() {
                            Some(syn::GenericArgument::Type(t)) => ty(t),
                            _ => json!({"k": "none"}),
                        },
                        _ => json!({"k": "none"}),
                    };
                    // body: `&self.a.b` / `&mut self.a.b` / `self`
                    let mut fpath: Vec<String> = vec![];
                    let mut shape_ok = false;
                    if let Some(ImplItem::Fn(mf)) = im.items.first() {
                        if let Some(Stmt::Expr(e, None)) = mf.block.stmts.first() {
                            let mut cur = match strip(e) {
                                Expr::Reference(r) => strip(&r.expr),
                                other => other,
                            };
                            shape_ok = true;
                            loop {
                                match cur {
                                    Expr::Field(fe) => {
                                        if let syn::Member::Named(n) = &fe.member {
                                            fpath.insert(0, n.to_string());
                                        }
                                        cur = strip(&fe.base);
                                    }
                                    e if is_self(e) => break,
                                    _ => {
                                        shape_ok = false;
                                        break;
                                    }
                                }
                            }
                        }
                    }
                    let rec = json!({"ty": target, "path": fpath, "shape_ok": shape_ok});
                    let e = items.get_mut(&self_ty).unwrap();
                    let key = if tname == "AsRef" { "asrefs" } else if tname == "AsMut" { "asmuts" } else { "othertraits" };
                    if e[key].is_null() {
                        e[key] = json!([]);
                    }
                    e[key].as_array_mut().unwrap().push(rec);
                    top.push(json!({"kind": "traitimpl", "name": self_ty, "trait": tname, "idx": idx}));
                    continue;
                }
                // inherent impl: singleton accessor or method block
                let fns: Vec<&syn::ImplItemFn> = im
                    .items
                    .iter()
                    .filter_map(|i| if let ImplItem::Fn(f) = i { Some(f) } else { None })
                    .collect();
                let is_singleton = fns.len() == 1 && fns[0].sig.ident == "get" && fns[0].sig.inputs.is_empty();
                let e = items.get_mut(&self_ty).unwrap();
                if is_singleton {
                    let lit = first_cast_literal(&fns[0].block);
                    let ret = match &fns[0].sig.output {
                        ReturnType::Default => String::new(),
                        ReturnType::Type(_, t) => t.to_token_stream().to_string().replace(' ', ""),
                    };
                    e["singleton"] = lit.as_ref().map(|l| int_json(l.0)).unwrap_or(json!(NONE));
                    e["singleton_derefs"] = json!(lit.as_ref().map(|l| l.1).unwrap_or(0));
                    e["singleton_cast"] = lit.as_ref().map(|l| l.2.clone()).unwrap_or(json!({"k": "none"}));
                    e["singleton_as_mut"] = json!(lit.as_ref().map(|l| l.3).unwrap_or(false));
                    e["singleton_shape"] = json!(if struct_singleton_template(&fns[0].block) || enum_singleton_template(&fns[0].block) {
                        "template"
                    } else {
                        "unknown"
                    });
                    e["singleton_vis"] = json!(vis(&fns[0].vis));
                    e["singleton_kind"] = json!(ret);
                    top.push(json!({"kind": "singleton", "name": self_ty, "idx": idx}));
                    continue;
                }
                e["impl_blocks"] = json!(e["impl_blocks"].as_i64().unwrap_or(0) + 1);
                for mf in fns {
                    if mf.sig.ident == "vftable" && mf.sig.inputs.len() == 1 {
                        // pub fn vftable(&self) -> T { self.vftable as T } | { self.<f>.vftable() as T }
                        let mut via = json!("?");
                        if let Some(Stmt::Expr(Expr::Cast(c), None)) = mf.block.stmts.first() {
                            match strip(&c.expr) {
                                Expr::Field(fe) if is_self(&fe.base) => {
                                    if let syn::Member::Named(n) = &fe.member {
                                        if n == "vftable" {
                                            via = json!("");
                                        }
                                    }
                                }
                                Expr::MethodCall(mc) if mc.method == "vftable" => {
                                    if let Expr::Field(fe) = strip(&mc.receiver) {
                                        if is_self(&fe.base) {
                                            if let syn::Member::Named(n) = &fe.member {
                                                via = json!(n.to_string());
                                            }
                                        }
                                    }
                                }
                                _ => {}
                            }
                        }
                        let count = e["vftacc"]["count"].as_i64().unwrap_or(0) + 1;
                        e["vftacc"] = json!({"has": true, "via": via, "count": count, "vis": vis(&mf.vis),
                            "ty": match &mf.sig.output { ReturnType::Default => json!({"k": "none"}), ReturnType::Type(_, t) => ty(t) }});
                    } else {
                        let mut m = method(mf);
                        // a forwarder without receiver names the type of the base field: find the field
                        if let Some(via) = m["body"].get("static_via").cloned() {
                            let hits: Vec<String> = e["fields"]
                                .as_array()
                                .map(|fs| fs.iter().filter(|f| f["ty"] == via).map(|f| f["name"].as_str().unwrap_or("").to_string()).collect())
                                .unwrap_or_default();
                            if hits.len() == 1 {
                                m["body"]["f"] = json!(hits[0]);
                            } else if hits.len() > 1 {
                                // several base fields of that type: a call without receiver reaches the same function through any of
                                // them; attribute it to the field the forwarder is named after (`<field>_<fn>`), else to the first
                                let name = m["name"].as_str().unwrap_or("").to_string();
                                let callee = m["body"]["fn"].as_str().unwrap_or("").to_string();
                                let pick = hits.iter().find(|h| name == format!("{h}_{callee}")).unwrap_or(&hits[0]).clone();
                                m["body"]["f"] = json!(pick);
                            } else {
                                m["body"] = json!({"k": "unknown", "text": "static forwarder through a type that is not the type of exactly one field"});
                            }
                        }
                        e["methods"].as_array_mut().unwrap().push(m);
                    }
                }
                top.push(json!({"kind": "impl", "name": self_ty, "idx": idx}));
            }
            Item::Const(c) => {
                let name = c.ident.to_string();
                if name.starts_with("_CONFLICTING_") {
                    // belongs to the struct emitted just before; attribute by scanning names
                    let owner = items
                        .iter()
                        .filter(|(k, v)| v["k"] == json!("struct") && name.starts_with(&format!("_CONFLICTING_{}_", k.to_uppercase())))
                        .map(|(k, _)| k.clone())
                        .max_by_key(|k| k.len());
                    if let Some(o) = owner {
                        items.get_mut(&o).unwrap()["conflicts"]
                            .as_array_mut()
                            .unwrap()
                            .push(json!({"name": name, "doc": docs(&c.attrs)}));
                        top.push(json!({"kind": "conflict", "name": o, "idx": idx}));
                        continue;
                    }
                }
                foreign.push(json!({"idx": idx, "kind": "const", "name": name, "text": it.to_token_stream().to_string()}));
                top.push(json!({"kind": "foreign", "name": name, "idx": idx}));
            }
            other => {
                foreign.push(json!({"idx": idx, "kind": "other", "name": "", "text": other.to_token_stream().to_string()}));
                top.push(json!({"kind": "foreign", "name": "", "idx": idx}));
            }
        }
    }
    Ok(json!({"doc": docs(&f.attrs), "items": Value::Object(items), "evals": evals,
              "foreign": foreign, "top": top}))
}
