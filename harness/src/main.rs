mod emitproj;
mod gram;
mod ptoks;
mod project;
mod render;
mod run;

use std::io::{BufRead, BufWriter, Write};
use std::path::PathBuf;
use std::sync::atomic::{AtomicI64, AtomicU64, Ordering};
use std::time::{SystemTime, UNIX_EPOCH};

use serde_json::Value;

static CUR_ID: AtomicI64 = AtomicI64::new(-1);
static CUR_START: AtomicU64 = AtomicU64::new(0);

fn now_ms() -> u64 {
    SystemTime::now().duration_since(UNIX_EPOCH).unwrap().as_millis() as u64
}

fn arg(args: &[String], name: &str) -> Option<String> {
    args.iter().position(|a| a == name).and_then(|i| args.get(i + 1).cloned())
}
fn flag(args: &[String], name: &str) -> bool {
    args.iter().any(|a| a == name)
}

fn main() {
    let args: Vec<String> = std::env::args().collect();
    let cmd = args.get(1).map(|s| s.as_str()).unwrap_or("");
    // panics of the code under test are data, not noise
    std::panic::set_hook(Box::new(|_| {}));
    match cmd {
        "replay" => replay(&args),
        "mutate" => mutate(&args),
        "syntax" => syntax(&args),
        "ptoks" => ptoks::run(&args),
        "buildtree" => {
            // pyxis::build on a prepared directory tree; prints the outcome and the full error chain
            let ind = arg(&args, "--in-dir").expect("--in-dir");
            let outd = arg(&args, "--out-dir").expect("--out-dir");
            let ptr: usize = arg(&args, "--ptr").and_then(|s| s.parse().ok()).unwrap_or(8);
            let r = std::panic::catch_unwind(|| pyxis::build(std::path::Path::new(&ind), std::path::Path::new(&outd), ptr));
            match r {
                Err(_) => println!("outcome=panic"),
                Ok(Ok(())) => println!("outcome=ok"),
                Ok(Err(e)) => println!("outcome=err {e:#}"),
            }
        }
        "addfile" => {
            // SemanticState::add_file with the given base and file path, then build; prints the outcome
            let base = arg(&args, "--base").expect("--base");
            let path = arg(&args, "--path").expect("--path");
            let r = std::panic::catch_unwind(|| {
                let mut s = pyxis::semantic::SemanticState::new(8);
                s.add_file(std::path::Path::new(&base), std::path::Path::new(&path))?;
                s.build().map(|_| ())
            });
            match r {
                Err(_) => println!("outcome=panic"),
                Ok(Ok(())) => println!("outcome=ok"),
                Ok(Err(e)) => println!("outcome=err {e:#}"),
            }
        }
        "render" => {
            // render the abstract inputs of an ndjson file to text (debugging aid)
            let inp = arg(&args, "--in").expect("--in");
            for line in std::io::BufReader::new(std::fs::File::open(inp).unwrap()).lines() {
                let v: Value = serde_json::from_str(&line.unwrap()).unwrap();
                for m in render::arr(&v["input"]["mods"]) {
                    println!("// ---- module {} (case {})", m["path"], v["id"]);
                    println!("{}", render::module(m, &mut render::Style { rng: None }));
                }
            }
        }
        "project" => {
            let f = arg(&args, "--file").expect("--file");
            let text = std::fs::read_to_string(f).unwrap();
            println!("{}", serde_json::to_string_pretty(&emitproj::file(&text).unwrap()).unwrap());
        }
        _ => {
            eprintln!("usage: pvh replay --in cases.ndjson --out obs.ndjson [--emit-dir D] [--prefix] [--project] [--sched] [--events] [--via-fs] [--style-seed N] [--timeout-ms N] [--skip N]");
            std::process::exit(2);
        }
    }
}

fn replay(args: &[String]) {
    let inp = arg(args, "--in").expect("--in");
    let outp = arg(args, "--out").expect("--out");
    let opts = run::Opts {
        emit_dir: arg(args, "--emit-dir").map(PathBuf::from),
        prefix: flag(args, "--prefix"),
        project_files: flag(args, "--project"),
        keep_text: flag(args, "--keep-text"),
        use_sched: flag(args, "--sched"),
        events: flag(args, "--events"),
        via_fs: flag(args, "--via-fs"),
        dirty_out: flag(args, "--dirty-out"),
    };
    let style_seed: Option<u64> = arg(args, "--style-seed").and_then(|s| s.parse().ok());
    let timeout_ms: u64 = arg(args, "--timeout-ms").and_then(|s| s.parse().ok()).unwrap_or(10_000);
    let skip: usize = arg(args, "--skip").and_then(|s| s.parse().ok()).unwrap_or(0);

    let out = std::fs::OpenOptions::new().create(true).append(true).open(&outp).unwrap();
    let mut out = BufWriter::new(out);

    // watchdog: a case that exceeds the time bound is recorded as a hang and the process
    // exits with status 3; the driver resumes after it
    let outp2 = outp.clone();
    std::thread::spawn(move || loop {
        std::thread::sleep(std::time::Duration::from_millis(200));
        let id = CUR_ID.load(Ordering::SeqCst);
        let st = CUR_START.load(Ordering::SeqCst);
        if id >= 0 && st > 0 && now_ms().saturating_sub(st) > timeout_ms {
            // the main thread may be mid-write only between cases; it is inside a case now
            let mut f = std::fs::OpenOptions::new().append(true).open(&outp2).unwrap();
            let _ = writeln!(f, "{{\"id\":{id},\"outcome\":\"hang\",\"accepted\":false}}");
            std::process::exit(3);
        }
    });

    let reader = std::io::BufReader::new(std::fs::File::open(inp).unwrap());
    for (n, line) in reader.lines().enumerate() {
        if n < skip {
            continue;
        }
        let line = line.unwrap();
        if line.trim().is_empty() {
            continue;
        }
        let case: Value = match serde_json::from_str(&line) {
            Ok(v) => v,
            Err(e) => {
                eprintln!("bad case line {n}: {e}");
                std::process::exit(2);
            }
        };
        out.flush().unwrap();
        CUR_ID.store(case["id"].as_i64().unwrap_or(n as i64), Ordering::SeqCst);
        CUR_START.store(now_ms(), Ordering::SeqCst);
        let seed = style_seed.map(|s| s.wrapping_mul(0x9E3779B97F4A7C15).wrapping_add(n as u64));
        let obs = run::run_case(&case, &opts, seed);
        CUR_START.store(0, Ordering::SeqCst);
        serde_json::to_writer(&mut out, &obs).unwrap();
        out.write_all(b"\n").unwrap();
    }
    out.flush().unwrap();
}


/// C12: grammar-directed mutations of printed modules.  Each case's text is tokenised and K
/// single-token mutations (delete / duplicate / swap / replace) are applied one at a time; the
/// mutated text goes through parse_str, add_module and build under catch_unwind.
fn tokens(text: &str) -> Vec<String> {
    let b: Vec<char> = text.chars().collect();
    let mut out = vec![];
    let mut i = 0;
    while i < b.len() {
        let c = b[i];
        if c.is_whitespace() {
            i += 1;
        } else if c.is_alphabetic() || c == '_' {
            let st = i;
            while i < b.len() && (b[i].is_alphanumeric() || b[i] == '_') {
                i += 1;
            }
            out.push(b[st..i].iter().collect());
        } else if c.is_ascii_digit() {
            let st = i;
            while i < b.len() && (b[i].is_alphanumeric() || b[i] == '_') {
                i += 1;
            }
            out.push(b[st..i].iter().collect());
        } else if c == '"' {
            let st = i;
            i += 1;
            while i < b.len() && b[i] != '"' {
                if b[i] == '\\' {
                    i += 1;
                }
                i += 1;
            }
            i = (i + 1).min(b.len());
            out.push(b[st..i].iter().collect());
        } else if c == '/' && i + 1 < b.len() && b[i + 1] == '/' {
            let st = i;
            while i < b.len() && b[i] != '\n' {
                i += 1;
            }
            out.push(format!("{}\n", b[st..i].iter().collect::<String>()));
        } else {
            out.push(c.to_string());
            i += 1;
        }
    }
    out
}

fn mutate(args: &[String]) {
    use rand::{Rng, SeedableRng};
    let inp = arg(args, "--in").expect("--in");
    let outp = arg(args, "--out").expect("--out");
    let k: usize = arg(args, "--n").and_then(|s| s.parse().ok()).unwrap_or(20);
    let seed: u64 = arg(args, "--seed").and_then(|s| s.parse().ok()).unwrap_or(1);
    let skip: usize = arg(args, "--skip").and_then(|s| s.parse().ok()).unwrap_or(0);
    let timeout_ms: u64 = arg(args, "--timeout-ms").and_then(|s| s.parse().ok()).unwrap_or(10_000);
    let pool = [
        "type", "enum", "impl", "fn", "pub", "vftable", "extern", "use", "backend", "unknown", "self", "mut", "const", "super",
        "{", "}", "(", ")", "[", "]", "<", ">", ",", ";", ":", "::", "#", "!", "=", "*", "&", "-", "->", "_",
        "0", "18446744073709551615", "9223372036854775808", "-1", "0x", "1e9", "\"s\"", "r#x", "'a", "@", "$", "\\",
    ];
    let out = std::fs::OpenOptions::new().create(true).append(true).open(&outp).unwrap();
    let mut out = BufWriter::new(out);
    let outp2 = outp.clone();
    std::thread::spawn(move || loop {
        std::thread::sleep(std::time::Duration::from_millis(200));
        let id = CUR_ID.load(Ordering::SeqCst);
        let st = CUR_START.load(Ordering::SeqCst);
        if id >= 0 && st > 0 && now_ms().saturating_sub(st) > timeout_ms {
            let mut f = std::fs::OpenOptions::new().append(true).open(&outp2).unwrap();
            let _ = writeln!(f, "{{\"id\":{id},\"outcome\":\"hang\",\"accepted\":false,\"text\":\"(see cur_text file)\"}}");
            std::process::exit(3);
        }
    });
    let reader = std::io::BufReader::new(std::fs::File::open(inp).unwrap());
    let mut n_line = 0usize;
    for line in reader.lines() {
        let line = line.unwrap();
        if line.trim().is_empty() {
            continue;
        }
        let case: Value = serde_json::from_str(&line).unwrap();
        let cid = case["id"].as_i64().unwrap_or(0);
        let ptr = case["input"]["ptr"].as_u64().unwrap_or(8) as usize;
        let mods = render::arr(&case["input"]["mods"]);
        let texts: Vec<String> = mods.iter().map(|m| render::module(m, &mut render::Style { rng: None })).collect();
        let mut rng = rand::rngs::StdRng::seed_from_u64(seed.wrapping_mul(0x9E3779B97F4A7C15).wrapping_add(cid as u64));
        for j in 0..k {
            n_line += 1;
            if n_line <= skip {
                // keep the rng in step
                let _: u64 = rng.gen();
                let _: u64 = rng.gen();
                let _: u64 = rng.gen();
                continue;
            }
            let mi = (rng.gen::<u64>() as usize) % texts.len().max(1);
            let mut toks = tokens(&texts[mi]);
            let a: u64 = rng.gen();
            let b: u64 = rng.gen();
            if !toks.is_empty() {
                let i = (a as usize) % toks.len();
                match b % 4 {
                    0 => {
                        toks.remove(i);
                    }
                    1 => {
                        let t = toks[i].clone();
                        toks.insert(i, t);
                    }
                    2 => {
                        if i + 1 < toks.len() {
                            toks.swap(i, i + 1);
                        }
                    }
                    _ => {
                        toks[i] = pool[((b / 4) as usize) % pool.len()].to_string();
                    }
                }
            }
            let text = toks.join(" ");
            out.flush().unwrap();
            let mid = cid * 1000 + j as i64;
            CUR_ID.store(mid, Ordering::SeqCst);
            CUR_START.store(now_ms(), Ordering::SeqCst);
            let r = std::panic::catch_unwind(std::panic::AssertUnwindSafe(|| -> Result<(), (String, String)> {
                let mut st = pyxis::semantic::SemanticState::new(ptr);
                for (k2, m) in mods.iter().enumerate() {
                    let t = if k2 == mi { &text } else { &texts[k2] };
                    let parsed = pyxis::parser::parse_str(t).map_err(|e| {
                        let lc = e.span().start();
                        ("parse".to_string(), format!("{}:{} {e}", lc.line, lc.column + 1))
                    })?;
                    let mut p = pyxis::grammar::ItemPath::empty();
                    for seg in render::arr(&m["path"]) {
                        p.push(render::s(seg).into());
                    }
                    st.add_module(&parsed, &p).map_err(|e| ("add".to_string(), format!("{e:#}")))?;
                }
                let resolved = st.build().map_err(|e| ("build".to_string(), format!("{e:#}")))?;
                let dir = std::env::temp_dir();
                let _ = dir;
                let _ = resolved;
                Ok(())
            }));
            CUR_START.store(0, Ordering::SeqCst);
            let obs = match r {
                Err(p) => {
                    let msg = p.downcast_ref::<String>().cloned().or_else(|| p.downcast_ref::<&str>().map(|t| t.to_string())).unwrap_or_default();
                    serde_json::json!({"id": mid, "outcome": "panic", "accepted": false, "msg": msg, "text": text})
                }
                Ok(Err((stage, msg))) => serde_json::json!({"id": mid, "outcome": "err", "accepted": false, "stage": stage,
                                                            "msg": msg.chars().take(200).collect::<String>()}),
                Ok(Ok(())) => serde_json::json!({"id": mid, "outcome": "ok", "accepted": true}),
            };
            serde_json::to_writer(&mut out, &obs).unwrap();
            out.write_all(b"\n").unwrap();
        }
    }
    out.flush().unwrap();
}


/// C18: print each abstract module K times with different trivia / spellings, parse it back and
/// compare with the expected grammar::Module; then four ill-formed variants that must be rejected
/// with a position inside the text.
fn syntax(args: &[String]) {
    use rand::SeedableRng;
    let inp = arg(args, "--in").expect("--in");
    let outp = arg(args, "--out").expect("--out");
    let k: u64 = arg(args, "--n").and_then(|s| s.parse().ok()).unwrap_or(4);
    let seed: u64 = arg(args, "--seed").and_then(|s| s.parse().ok()).unwrap_or(1);
    let mut out = BufWriter::new(std::fs::File::create(&outp).unwrap());
    let reader = std::io::BufReader::new(std::fs::File::open(inp).unwrap());
    for line in reader.lines() {
        let line = line.unwrap();
        if line.trim().is_empty() {
            continue;
        }
        let case: Value = serde_json::from_str(&line).unwrap();
        let id = case["id"].as_i64().unwrap_or(0);
        let m = &case["gmod"];
        let expected = gram::to_grammar(m);
        let mut rec = serde_json::json!({"id": id, "prints": 0, "mismatch": [], "illformed_accepted": [], "bad_position": [], "panic": []});
        for j in 0..k {
            let mut rng = rand::rngs::StdRng::seed_from_u64(seed.wrapping_mul(1_000_003).wrapping_add(id as u64 * 131 + j));
            let (text, toks) = gram::print(m, &mut rng);
            rec["prints"] = serde_json::json!(j + 1);
            let r = std::panic::catch_unwind(|| pyxis::parser::parse_str(&text));
            match r {
                Err(_) => rec["panic"].as_array_mut().unwrap().push(serde_json::json!({"text": text})),
                Ok(Err(e)) => rec["mismatch"].as_array_mut().unwrap().push(
                    serde_json::json!({"kind": "rejected", "error": e.to_string(), "at": format!("{}:{}", e.span().start().line, e.span().start().column + 1), "text": text})),
                Ok(Ok(got)) => {
                    if got != expected {
                        let (a, b) = (format!("{got:?}"), format!("{expected:?}"));
                        let pos = a.chars().zip(b.chars()).position(|(x, y)| x != y).unwrap_or(0);
                        let lo = pos.saturating_sub(60);
                        rec["mismatch"].as_array_mut().unwrap().push(serde_json::json!({"kind": "different", "text": text,
                            "got": a.chars().skip(lo).take(160).collect::<String>(), "expected": b.chars().skip(lo).take(160).collect::<String>()}));
                    }
                }
            }
            if j == 0 {
                // ill-formed variants
                let mut variants: Vec<(&str, Vec<String>)> = vec![];
                if let Some(i) = toks.iter().rposition(|t| t == "}") {
                    let mut v = toks.clone();
                    v.remove(i);
                    variants.push(("unbalanced-brace", v));
                }
                if let Some(i) = toks.iter().position(|t| t == ":") {
                    let mut v = toks.clone();
                    v.remove(i);
                    variants.push(("missing-colon", v));
                }
                if let Some(i) = toks.iter().position(|t| t == "type" || t == "enum") {
                    if i + 1 < toks.len() {
                        let mut v = toks.clone();
                        v[i + 1] = "fn".to_string();
                        variants.push(("keyword-as-name", v));
                    }
                }
                if let Some(i) = toks.iter().position(|t| t == "use") {
                    if let Some(jx) = toks[i..].iter().position(|t| t == ";") {
                        let mut v = toks.clone();
                        v.remove(i + jx);
                        variants.push(("missing-semicolon", v));
                    }
                }
                {
                    let mut v = toks.clone();
                    v.push("]".to_string());
                    variants.push(("stray-bracket", v));
                }
                // an inner attribute anywhere but at the start of the module
                if let Some(i) = toks.iter().rposition(|t| t == "impl") {
                    if i > 0 {
                        let mut v = toks.clone();
                        for (k, t) in ["#", "!", "[", "late", "]"].iter().enumerate() {
                            v.insert(i + k, t.to_string());
                        }
                        variants.push(("inner-attribute-in-item-position", v));
                    }
                }
                for (name, v) in variants {
                    let text = gram::join(&v, &mut rng);
                    let nlines = text.lines().count().max(1);
                    match std::panic::catch_unwind(|| pyxis::parser::parse_str(&text)) {
                        Err(_) => rec["panic"].as_array_mut().unwrap().push(serde_json::json!({"variant": name, "text": text})),
                        Ok(Ok(_)) => rec["illformed_accepted"].as_array_mut().unwrap().push(serde_json::json!({"variant": name, "text": text})),
                        Ok(Err(e)) => {
                            let lc = e.span().start();
                            if lc.line == 0 || lc.line > nlines + 1 {
                                rec["bad_position"].as_array_mut().unwrap().push(serde_json::json!({"variant": name, "line": lc.line, "lines": nlines}));
                            }
                        }
                    }
                }
            }
        }
        serde_json::to_writer(&mut out, &rec).unwrap();
        out.write_all(b"\n").unwrap();
    }
    out.flush().unwrap();
}
