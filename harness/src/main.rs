mod emitproj;
mod project;
mod render;
mod run;

use std::io::{BufRead, BufWriter, Write};
use std::path::PathBuf;
use std::sync::atomic::{AtomicI64, AtomicU64, Ordering};
use std::time::{SystemTime, UNIX_EPOCH};

use serde_json::Value;

static CUR_ID: AtomicI64 = AtomicI64::new(-1);
static CUR_START: AtomicU64 = AtomicU64::new(0);

fn now_ms() -> u64 {
    SystemTime::now().duration_since(UNIX_EPOCH).unwrap().as_millis() as u64
}

fn arg(args: &[String], name: &str) -> Option<String> {
    args.iter().position(|a| a == name).and_then(|i| args.get(i + 1).cloned())
}
fn flag(args: &[String], name: &str) -> bool {
    args.iter().any(|a| a == name)
}

fn main() {
    let args: Vec<String> = std::env::args().collect();
    let cmd = args.get(1).map(|s| s.as_str()).unwrap_or("");
    // panics of the code under test are data, not noise
    std::panic::set_hook(Box::new(|_| {}));
    match cmd {
        "replay" => replay(&args),
        "render" => {
            // render the abstract inputs of an ndjson file to text (debugging aid)
            let inp = arg(&args, "--in").expect("--in");
            for line in std::io::BufReader::new(std::fs::File::open(inp).unwrap()).lines() {
                let v: Value = serde_json::from_str(&line.unwrap()).unwrap();
                for m in render::arr(&v["input"]["mods"]) {
                    println!("// ---- module {} (case {})", m["path"], v["id"]);
                    println!("{}", render::module(m, &mut render::Style { rng: None }));
                }
            }
        }
        "project" => {
            let f = arg(&args, "--file").expect("--file");
            let text = std::fs::read_to_string(f).unwrap();
            println!("{}", serde_json::to_string_pretty(&emitproj::file(&text).unwrap()).unwrap());
        }
        _ => {
            eprintln!("usage: pvh replay --in cases.ndjson --out obs.ndjson [--emit-dir D] [--prefix] [--project] [--sched] [--events] [--via-fs] [--style-seed N] [--timeout-ms N] [--skip N]");
            std::process::exit(2);
        }
    }
}

fn replay(args: &[String]) {
    let inp = arg(args, "--in").expect("--in");
    let outp = arg(args, "--out").expect("--out");
    let opts = run::Opts {
        emit_dir: arg(args, "--emit-dir").map(PathBuf::from),
        prefix: flag(args, "--prefix"),
        project_files: flag(args, "--project"),
        keep_text: flag(args, "--keep-text"),
        use_sched: flag(args, "--sched"),
        events: flag(args, "--events"),
        via_fs: flag(args, "--via-fs"),
    };
    let style_seed: Option<u64> = arg(args, "--style-seed").and_then(|s| s.parse().ok());
    let timeout_ms: u64 = arg(args, "--timeout-ms").and_then(|s| s.parse().ok()).unwrap_or(10_000);
    let skip: usize = arg(args, "--skip").and_then(|s| s.parse().ok()).unwrap_or(0);

    let out = std::fs::OpenOptions::new().create(true).append(true).open(&outp).unwrap();
    let mut out = BufWriter::new(out);

    // watchdog: a case that exceeds the time bound is recorded as a hang and the process
    // exits with status 3; the driver resumes after it
    let outp2 = outp.clone();
    std::thread::spawn(move || loop {
        std::thread::sleep(std::time::Duration::from_millis(200));
        let id = CUR_ID.load(Ordering::SeqCst);
        let st = CUR_START.load(Ordering::SeqCst);
        if id >= 0 && st > 0 && now_ms().saturating_sub(st) > timeout_ms {
            // the main thread may be mid-write only between cases; it is inside a case now
            let mut f = std::fs::OpenOptions::new().append(true).open(&outp2).unwrap();
            let _ = writeln!(f, "{{\"id\":{id},\"outcome\":\"hang\",\"accepted\":false}}");
            std::process::exit(3);
        }
    });

    let reader = std::io::BufReader::new(std::fs::File::open(inp).unwrap());
    for (n, line) in reader.lines().enumerate() {
        if n < skip {
            continue;
        }
        let line = line.unwrap();
        if line.trim().is_empty() {
            continue;
        }
        let case: Value = match serde_json::from_str(&line) {
            Ok(v) => v,
            Err(e) => {
                eprintln!("bad case line {n}: {e}");
                std::process::exit(2);
            }
        };
        out.flush().unwrap();
        CUR_ID.store(case["id"].as_i64().unwrap_or(n as i64), Ordering::SeqCst);
        CUR_START.store(now_ms(), Ordering::SeqCst);
        let seed = style_seed.map(|s| s.wrapping_mul(0x9E3779B97F4A7C15).wrapping_add(n as u64));
        let obs = run::run_case(&case, &opts, seed);
        CUR_START.store(0, Ordering::SeqCst);
        serde_json::to_writer(&mut out, &obs).unwrap();
        out.write_all(b"\n").unwrap();
    }
    out.flush().unwrap();
}
