//! C18: abstract modules over the full grammar (spec/MC_Syntax.tla) -> (a) the expected
//! grammar::Module, (b) concrete syntax with randomised trivia and spellings.

use pyxis::grammar as g;
use rand::{rngs::StdRng, Rng};
use serde_json::Value;

use crate::render::{arr, num, s};

fn ident(v: &Value) -> g::Ident {
    g::Ident(s(v).to_string())
}

fn vis(v: &Value) -> g::Visibility {
    if s(v) == "pub" {
        g::Visibility::Public
    } else {
        g::Visibility::Private
    }
}

fn expr(v: &Value) -> g::Expr {
    match s(&v["k"]) {
        "int" => g::Expr::IntLiteral(num(&v["v"]) as isize),
        "str" => g::Expr::StringLiteral(s(&v["v"]).to_string()),
        _ => g::Expr::Ident(ident(&v["v"])),
    }
}

fn attr(v: &Value) -> g::Attribute {
    match s(&v["k"]) {
        "ident" => g::Attribute::Ident(ident(&v["name"])),
        "fn" => g::Attribute::Function(ident(&v["name"]), arr(&v["args"]).iter().map(expr).collect()),
        _ => g::Attribute::Assign(ident(&v["name"]), expr(&v["value"])),
    }
}

fn attrs(v: &Value) -> g::Attributes {
    g::Attributes(arr(v).iter().map(attr).collect())
}

fn ty(v: &Value) -> g::Type {
    match s(&v["k"]) {
        "nm" => g::Type::Ident(ident(&v["n"])),
        "cptr" => g::Type::ConstPointer(Box::new(ty(&v["t"]))),
        "mptr" => g::Type::MutPointer(Box::new(ty(&v["t"]))),
        "arr" => g::Type::Array(Box::new(ty(&v["t"])), num(&v["len"]) as usize),
        _ => g::Type::Unknown(num(&v["len"]) as usize),
    }
}

fn func(v: &Value) -> g::Function {
    g::Function {
        visibility: vis(&v["vis"]),
        name: ident(&v["name"]),
        attributes: attrs(&v["attrs"]),
        arguments: arr(&v["args"])
            .iter()
            .map(|a| match s(&a["k"]) {
                "cself" => g::Argument::ConstSelf,
                "mself" => g::Argument::MutSelf,
                _ => g::Argument::Named(ident(&a["name"]), ty(&a["ty"])),
            })
            .collect(),
        return_type: if s(&v["ret"]["k"]) == "none" { None } else { Some(ty(&v["ret"])) },
    }
}

pub fn to_grammar(m: &Value) -> g::Module {
    let text = |v: &Value| -> Option<String> {
        // Parse.tla keeps the texts of a block as a sequence (each is trimmed, then they are joined with a line break);
        // MC_Syntax.tla gives one text, "\n" standing for none
        if let Some(parts) = v.as_array() {
            if parts.is_empty() {
                return None;
            }
            return Some(parts.iter().map(|p| s(p).trim().to_string()).collect::<Vec<_>>().join("\n"));
        }
        let t = s(v);
        if t == "\n" {
            None
        } else {
            Some(t.trim().to_string())
        }
    };
    g::Module {
        uses: arr(&m["uses"])
            .iter()
            .map(|u| arr(u).iter().map(|seg| g::ItemPathSegment::from(s(seg).to_string())).collect::<g::ItemPath>())
            .collect(),
        extern_types: arr(&m["exts"]).iter().map(|e| (ident(&e["name"]), attrs(&e["attrs"]))).collect(),
        extern_values: arr(&m["evals"])
            .iter()
            .map(|e| g::ExternValue { visibility: vis(&e["vis"]), name: ident(&e["name"]), type_: ty(&e["ty"]), attributes: attrs(&e["attrs"]) })
            .collect(),
        definitions: arr(&m["defs"])
            .iter()
            .map(|d| g::ItemDefinition {
                visibility: vis(&d["vis"]),
                name: ident(&d["name"]),
                inner: if s(&d["k"]) == "enum" {
                    g::ItemDefinitionInner::Enum(g::EnumDefinition {
                        type_: ty(&d["base"]),
                        statements: arr(&d["vars"])
                            .iter()
                            .map(|v| g::EnumStatement {
                                name: ident(&v["name"]),
                                expr: if v["has"].as_bool() == Some(true) { Some(expr(&v["expr"])) } else { None },
                                attributes: attrs(&v["attrs"]),
                            })
                            .collect(),
                        attributes: attrs(&d["attrs"]),
                    })
                } else {
                    g::ItemDefinitionInner::Type(g::TypeDefinition {
                        statements: arr(&d["stmts"])
                            .iter()
                            .map(|st| g::TypeStatement {
                                field: if s(&st["k"]) == "vftable" {
                                    g::TypeField::Vftable(arr(&st["funcs"]).iter().map(func).collect())
                                } else {
                                    g::TypeField::Field(vis(&st["vis"]), ident(&st["name"]), ty(&st["ty"]))
                                },
                                attributes: attrs(&st["attrs"]),
                            })
                            .collect(),
                        attributes: attrs(&d["attrs"]),
                    })
                },
            })
            .collect(),
        impls: arr(&m["impls"])
            .iter()
            .map(|i| g::FunctionBlock { name: ident(&i["name"]), functions: arr(&i["funcs"]).iter().map(func).collect(), attributes: attrs(&i["attrs"]) })
            .collect(),
        backends: arr(&m["backs"])
            .iter()
            .map(|b| g::Backend { name: ident(&b["name"]), prologue: text(&b["pro"]), epilogue: text(&b["epi"]) })
            .collect(),
        attributes: attrs(&m["attrs"]),
    }
}

// ------------------------------------------------------------------------------------------
// printing: a token list joined by random trivia

pub struct P<'a> {
    pub toks: Vec<String>,
    pub rng: &'a mut StdRng,
}

impl P<'_> {
    fn t(&mut self, x: &str) {
        self.toks.push(x.to_string());
    }
    fn coin(&mut self) -> bool {
        self.rng.gen_bool(0.5)
    }
    fn int(&mut self, n: i128) {
        let neg = n < 0;
        let a = n.unsigned_abs();
        let body = match self.rng.gen_range(0..5) {
            0 => format!("{a}"),
            1 => format!("0x{a:X}"),
            2 => format!("0x{a:x}"),
            3 => format!("0b{a:b}"),
            _ => {
                let d = format!("{a}");
                if d.len() > 3 {
                    format!("{}_{}", &d[..d.len() - 3], &d[d.len() - 3..])
                } else {
                    format!("0o{a:o}")
                }
            }
        };
        if neg {
            self.t(&format!("-{body}"));
        } else {
            self.t(&body);
        }
    }
    fn strlit(&mut self, v: &str) {
        if !v.contains('"') && !v.contains('\\') && self.coin() {
            self.t(&format!("r#\"{v}\"#"));
        } else {
            self.t(&format!("{v:?}"));
        }
    }
    fn expr(&mut self, v: &Value) {
        match s(&v["k"]) {
            "int" => self.int(num(&v["v"])),
            "str" => self.strlit(s(&v["v"])),
            _ => self.t(s(&v["v"])),
        }
    }
    /// type names may contain the generics hack (`List<Item>`): printed as separate tokens
    fn type_name(&mut self, n: &str) {
        let mut cur = String::new();
        for c in n.chars() {
            if c == '<' || c == '>' {
                if !cur.is_empty() {
                    self.t(&cur);
                    cur.clear();
                }
                self.t(&c.to_string());
            } else {
                cur.push(c);
            }
        }
        if !cur.is_empty() {
            self.t(&cur);
        }
    }
    fn attrs(&mut self, v: &Value, inner: bool) {
        let list = arr(v);
        let mut i = 0;
        while i < list.len() {
            let a = &list[i];
            // a doc assignment may be written as a doc comment
            if s(&a["k"]) == "assign" && s(&a["name"]) == "doc" && s(&a["value"]["k"]) == "str" {
                let line = s(&a["value"]["v"]);
                if !line.contains('\n') && !line.starts_with('/') && !line.starts_with('!') && self.coin() {
                    self.t(&format!("{}{}\n", if inner { "//!" } else { "///" }, line));
                    i += 1;
                    continue;
                }
            }
            // group 1..3 consecutive attributes into one bracket
            self.t("#");
            if inner {
                self.t("!");
            }
            self.t("[");
            let mut first = true;
            loop {
                if !first {
                    self.t(",");
                }
                first = false;
                let a = &list[i];
                self.t(s(&a["name"]));
                match s(&a["k"]) {
                    "fn" => {
                        self.t("(");
                        let args = arr(&a["args"]);
                        for (k, e) in args.iter().enumerate() {
                            self.expr(e);
                            if k + 1 < args.len() || (self.coin() && !args.is_empty()) {
                                self.t(",");
                            }
                        }
                        self.t(")");
                    }
                    "assign" => {
                        self.t("=");
                        self.expr(&a["value"]);
                    }
                    _ => {}
                }
                i += 1;
                if i >= list.len() || !self.coin() {
                    break;
                }
            }
            if self.coin() {
                self.t(",");
            }
            self.t("]");
        }
    }
    fn ty(&mut self, v: &Value) {
        match s(&v["k"]) {
            "nm" => self.type_name(s(&v["n"])),
            "cptr" => {
                self.t("*");
                self.t("const");
                self.ty(&v["t"]);
            }
            "mptr" => {
                self.t("*");
                self.t("mut");
                self.ty(&v["t"]);
            }
            "arr" => {
                self.t("[");
                self.ty(&v["t"]);
                self.t(";");
                self.int(num(&v["len"]));
                self.t("]");
            }
            _ => {
                self.t("unknown");
                self.t("<");
                self.int(num(&v["len"]));
                self.t(">");
            }
        }
    }
    fn vis(&mut self, v: &Value) {
        if s(v) == "pub" {
            self.t("pub");
        }
    }
    fn func(&mut self, f: &Value) {
        self.attrs(&f["attrs"], false);
        self.vis(&f["vis"]);
        self.t("fn");
        self.t(s(&f["name"]));
        self.t("(");
        let args = arr(&f["args"]);
        for (k, a) in args.iter().enumerate() {
            match s(&a["k"]) {
                "cself" => {
                    self.t("&");
                    self.t("self");
                }
                "mself" => {
                    self.t("&");
                    self.t("mut");
                    self.t("self");
                }
                _ => {
                    self.t(s(&a["name"]));
                    self.t(":");
                    self.ty(&a["ty"]);
                }
            }
            if k + 1 < args.len() || self.coin() {
                self.t(",");
            }
        }
        self.t(")");
        if s(&f["ret"]["k"]) != "none" {
            self.t("->");
            self.ty(&f["ret"]);
        }
    }
    fn funcs(&mut self, fs: &[Value]) {
        for (k, f) in fs.iter().enumerate() {
            self.func(f);
            if k + 1 < fs.len() || self.coin() {
                self.t(";");
            }
        }
    }
}

pub fn print(m: &Value, rng: &mut StdRng) -> (String, Vec<String>) {
    let mut p = P { toks: vec![], rng };
    p.attrs(&m["attrs"], true);
    // items of different kinds may interleave; within a kind the order is kept
    let mut queues: Vec<Vec<(usize, &Value)>> = vec![];
    for (kind, key) in ["uses", "backs", "exts", "evals", "defs", "impls"].iter().enumerate() {
        queues.push(arr(&m[*key]).iter().map(|v| (kind, v)).collect());
    }
    let mut items: Vec<(usize, &Value)> = vec![];
    let mut idx = vec![0usize; queues.len()];
    loop {
        let avail: Vec<usize> = (0..queues.len()).filter(|q| idx[*q] < queues[*q].len()).collect();
        if avail.is_empty() {
            break;
        }
        let q = avail[p.rng.gen_range(0..avail.len())];
        items.push(queues[q][idx[q]]);
        idx[q] += 1;
    }
    for (kind, v) in items {
        match kind {
            0 => {
                p.t("use");
                let segs = arr(v);
                for (k, seg) in segs.iter().enumerate() {
                    p.type_name(s(seg));
                    if k + 1 < segs.len() {
                        p.t("::");
                    }
                }
                p.t(";");
            }
            1 => {
                p.t("backend");
                p.t(s(&v["name"]));
                let (pro, epi) = (s(&v["pro"]), s(&v["epi"]));
                match s(&v["form"]) {
                    "pro" => {
                        p.t("prologue");
                        p.strlit(pro);
                        p.t(";");
                    }
                    "epi" => {
                        p.t("epilogue");
                        p.strlit(epi);
                        p.t(";");
                    }
                    _ => {
                        p.t("{");
                        // the two blocks may come in either order
                        let epi_first = p.coin();
                        for which in if epi_first { [1, 0] } else { [0, 1] } {
                            if which == 0 && pro != "\n" {
                                p.t("prologue");
                                p.strlit(pro);
                                p.t(";");
                            }
                            if which == 1 && epi != "\n" {
                                p.t("epilogue");
                                p.strlit(epi);
                                p.t(";");
                            }
                        }
                        p.t("}");
                    }
                }
            }
            2 => {
                p.attrs(&v["attrs"], false);
                p.t("extern");
                p.t("type");
                p.type_name(s(&v["name"]));
                p.t(";");
            }
            3 => {
                p.attrs(&v["attrs"], false);
                p.vis(&v["vis"]);
                p.t("extern");
                p.t(s(&v["name"]));
                p.t(":");
                p.ty(&v["ty"]);
                p.t(";");
            }
            4 => {
                p.attrs(&v["attrs"], false);
                p.vis(&v["vis"]);
                if s(&v["k"]) == "enum" {
                    p.t("enum");
                    p.t(s(&v["name"]));
                    p.t(":");
                    p.ty(&v["base"]);
                    p.t("{");
                    let vars = arr(&v["vars"]);
                    for (k, var) in vars.iter().enumerate() {
                        p.attrs(&var["attrs"], false);
                        p.t(s(&var["name"]));
                        if var["has"].as_bool() == Some(true) {
                            p.t("=");
                            p.expr(&var["expr"]);
                        }
                        if k + 1 < vars.len() || p.coin() {
                            p.t(",");
                        }
                    }
                    p.t("}");
                } else {
                    p.t("type");
                    p.t(s(&v["name"]));
                    let stmts = arr(&v["stmts"]);
                    if stmts.is_empty() && p.coin() {
                        p.t(";");
                    } else {
                        p.t("{");
                        for (k, st) in stmts.iter().enumerate() {
                            p.attrs(&st["attrs"], false);
                            if s(&st["k"]) == "vftable" {
                                p.t("vftable");
                                p.t("{");
                                p.funcs(arr(&st["funcs"]));
                                p.t("}");
                            } else {
                                p.vis(&st["vis"]);
                                p.t(s(&st["name"]));
                                p.t(":");
                                p.ty(&st["ty"]);
                            }
                            if k + 1 < stmts.len() || p.coin() {
                                p.t(",");
                            }
                        }
                        p.t("}");
                    }
                }
            }
            _ => {
                p.attrs(&v["attrs"], false);
                p.t("impl");
                p.t(s(&v["name"]));
                p.t("{");
                p.funcs(arr(&v["funcs"]));
                p.t("}");
            }
        }
    }
    let toks = p.toks.clone();
    let text = join(&toks, p.rng);
    (text, toks)
}

pub fn join(toks: &[String], rng: &mut StdRng) -> String {
    let seps = [" ", "\n", "  ", "\t", " /* c */ ", "\n// line comment\n", " /* multi\n line */ "];
    let mut out = String::new();
    for t in toks {
        out.push_str(t);
        if !t.ends_with('\n') {
            out.push_str(seps[rng.gen_range(0..seps.len())]);
        }
    }
    out
}
