------------------------------- MODULE Interp -------------------------------
(***************************************************************************)
(* From the abstract module the parser returns (grammar::Module, the       *)
(* record shape of Parse.tla) to the description the compiler works on     *)
(* (Base.tla): which attributes are read, and how.                         *)
(*                                                                         *)
(*   - an integer attribute  name(<one integer literal>)  counts; any      *)
(*     other shape of that name is ignored; when it is stated several      *)
(*     times the LAST statement counts (size, align, singleton, address,   *)
(*     index alike);                                                       *)
(*   - marker attributes are plain identifiers (copyable, cloneable,       *)
(*     defaultable, packed, base, default);                                *)
(*   - documentation is every  doc = "text"  in order;                     *)
(*   - calling_convention("name"): the last one decides, every one is      *)
(*     validated; on an impl function ANY attribute called index is an     *)
(*     error; on a virtual function only index(<int>) is read.             *)
(* Together with Parse.tla and Pyxis.tla this makes the specification a    *)
(* function from token sequences to outcomes:                              *)
(*     DetRunOn( Elaborate( ParseToks(ts).m ) ).                           *)
(* Not every abstract module has an image in Base.tla (two vftable blocks  *)
(* in one type, integers beyond TLC's range, ...): Elaborable says which.  *)
(***************************************************************************)
EXTENDS Det

(* -------------------------- reading attributes ------------------------- *)
IsSmall(n) == n.a = "0"                     \* a symbolic integer that TLC can hold
IntOf(n) == n.d

IsIntFn(a, name) == a.k = "fn" /\ a.name = name /\ Len(a.args) = 1 /\ a.args[1].k = "int"
(* the last  name(<int>)  of the list, None when there is none *)
IntAttr(attrs, name) ==
  LET i == LastIdx(attrs, LAMBDA a : IsIntFn(a, name))
  IN IF i = 0 THEN None ELSE IntOf(attrs[i].args[1].v)
HasIdent(attrs, name) == \E i \in DOMAIN attrs : attrs[i].k = "ident" /\ attrs[i].name = name
HasFnNamed(attrs, name) == \E i \in DOMAIN attrs : attrs[i].k = "fn" /\ attrs[i].name = name
IsDoc(a) == a.k = "assign" /\ a.name = "doc"
DocLines(attrs) == LET ds == SelectSeq(attrs, IsDoc) IN [i \in DOMAIN ds |-> ds[i].value.v]
IsCC(a) == a.k = "fn" /\ a.name = "calling_convention" /\ Len(a.args) = 1 /\ a.args[1].k = "str"
CCs(attrs) == LET cs == SelectSeq(attrs, IsCC) IN [i \in DOMAIN cs |-> cs[i].args[1].v]

(* every integer that the elaboration reads must be one TLC can hold *)
IntsSmall(attrs, names) ==
  \A i \in DOMAIN attrs : \A n \in names : IsIntFn(attrs[i], n) => IsSmall(attrs[i].args[1].v)

RECURSIVE TySmall(_)
TySmall(ty) == CASE ty.k \in {"nm", "none"} -> TRUE
                 [] ty.k = "unk" -> IsSmall(ty.len)
                 [] ty.k = "arr" -> IsSmall(ty.len) /\ TySmall(ty.t)
                 [] OTHER -> TySmall(ty.t)
RECURSIVE TyOf(_)
TyOf(ty) == CASE ty.k \in {"nm", "none"} -> ty
              [] ty.k = "unk" -> TUnk(IntOf(ty.len))
              [] ty.k = "arr" -> TArr(TyOf(ty.t), IntOf(ty.len))
              [] OTHER -> [k |-> ty.k, t |-> TyOf(ty.t)]

(* ------------------------------ functions ------------------------------ *)
ElabFunc(f, isV) ==
  LET ccs == CCs(f.attrs)
      bad == \E i \in DOMAIN ccs : ccs[i] \notin Conventions
  IN [Func(f.name, f.vis, DocLines(f.attrs),
           [i \in DOMAIN f.args |-> IF f.args[i].k = "named" THEN Arg(f.args[i].name, TyOf(f.args[i].ty)) ELSE f.args[i]],
           TyOf(f.ret), IntAttr(f.attrs, "address"),
           (* an impl function must not carry anything called index; a virtual one reads index(<int>) *)
           IF isV THEN IntAttr(f.attrs, "index") ELSE IF HasFnNamed(f.attrs, "index") THEN 0 ELSE None,
           IF bad \/ ccs = <<>> THEN "" ELSE Last(ccs))
      EXCEPT !.xattrs = IF bad THEN <<BogusCC>> ELSE <<>>]
FuncOk(f) ==
  /\ IntsSmall(f.attrs, {"address", "index"}) /\ TySmall(f.ret)
  /\ \A i \in DOMAIN f.args : f.args[i].k = "named" => TySmall(f.args[i].ty)
  /\ \A i \in DOMAIN f.attrs : IsDoc(f.attrs[i]) => f.attrs[i].value.k = "str"

(* ------------------------------ definitions ---------------------------- *)
VftIdx(stmts) == {i \in DOMAIN stmts : stmts[i].k = "vftable"}
ElabType(d) ==
  LET vi == VftIdx(d.stmts)
      v == IF vi = {} THEN 0 ELSE CHOOSE i \in vi : TRUE
      fields == SelectSeq(d.stmts, LAMBDA s : s.k = "field")
      vft == IF v = 0 THEN NoVft
             ELSE [has |-> TRUE, pos |-> v - 1, size |-> IntAttr(d.stmts[v].attrs, "size"),
                   funcs |-> [i \in DOMAIN d.stmts[v].funcs |-> ElabFunc(d.stmts[v].funcs[i], TRUE)],
                   doc |-> DocLines(d.stmts[v].attrs)]
  IN [TypeDef(d.name, d.vis,
              [i \in DOMAIN fields |-> Field(fields[i].name, fields[i].vis, DocLines(fields[i].attrs), TyOf(fields[i].ty),
                                             IntAttr(fields[i].attrs, "address"), HasIdent(fields[i].attrs, "base"))])
        EXCEPT !.doc = DocLines(d.attrs), !.size = IntAttr(d.attrs, "size"), !.align = IntAttr(d.attrs, "align"),
               !.singleton = IntAttr(d.attrs, "singleton"), !.packed = HasIdent(d.attrs, "packed"),
               !.copyable = HasIdent(d.attrs, "copyable"), !.cloneable = HasIdent(d.attrs, "cloneable"),
               !.defaultable = HasIdent(d.attrs, "defaultable"), !.vft = vft]
TypeOk(d) ==
  /\ Cardinality(VftIdx(d.stmts)) <= 1
  /\ IntsSmall(d.attrs, {"size", "align", "singleton"})
  /\ \A i \in DOMAIN d.attrs : IsDoc(d.attrs[i]) => d.attrs[i].value.k = "str"
  /\ \A i \in DOMAIN d.stmts :
       /\ \A j \in DOMAIN d.stmts[i].attrs : IsDoc(d.stmts[i].attrs[j]) => d.stmts[i].attrs[j].value.k = "str"
       /\ IF d.stmts[i].k = "field" THEN TySmall(d.stmts[i].ty) /\ IntsSmall(d.stmts[i].attrs, {"address"})
          ELSE IntsSmall(d.stmts[i].attrs, {"size"}) /\ \A j \in DOMAIN d.stmts[i].funcs : FuncOk(d.stmts[i].funcs[j])

ElabEnum(d) ==
  [EnumDef(d.name, d.vis, TyOf(d.base),
           [i \in DOMAIN d.vars |->
              [Variant(d.vars[i].name,
                       IF d.vars[i].has /\ d.vars[i].expr.k = "int" THEN d.vars[i].expr.v ELSE NumNone,
                       HasIdent(d.vars[i].attrs, "default"))
                 EXCEPT !.doc = DocLines(d.vars[i].attrs),
                        !.raw = IF d.vars[i].has /\ d.vars[i].expr.k # "int" THEN "x" ELSE ""]])
     EXCEPT !.doc = DocLines(d.attrs), !.singleton = IntAttr(d.attrs, "singleton"),
            !.copyable = HasIdent(d.attrs, "copyable"), !.cloneable = HasIdent(d.attrs, "cloneable"),
            !.defaultable = HasIdent(d.attrs, "defaultable")]
EnumOk(d) ==
  /\ TySmall(d.base) /\ IntsSmall(d.attrs, {"singleton"})
  (* a case marked `default` twice counts as two default cases for the code ("multiple default variants"): no image here *)
  /\ \A i \in DOMAIN d.vars : Cardinality({j \in DOMAIN d.vars[i].attrs : d.vars[i].attrs[j].k = "ident" /\ d.vars[i].attrs[j].name = "default"}) <= 1
  /\ \A i \in DOMAIN d.attrs : IsDoc(d.attrs[i]) => d.attrs[i].value.k = "str"
  /\ \A i \in DOMAIN d.vars : \A j \in DOMAIN d.vars[i].attrs : IsDoc(d.vars[i].attrs[j]) => d.vars[i].attrs[j].value.k = "str"

(* -------------------------------- modules ------------------------------ *)
Elaborate(g, path) ==
  [Module(path, g.uses, [i \in DOMAIN g.defs |-> IF g.defs[i].k = "type" THEN ElabType(g.defs[i]) ELSE ElabEnum(g.defs[i])])
     EXCEPT !.doc = DocLines(g.attrs),
            !.exts = [i \in DOMAIN g.exts |-> ExtType(g.exts[i].name, IntAttr(g.exts[i].attrs, "size"), IntAttr(g.exts[i].attrs, "align"))],
            !.evals = [i \in DOMAIN g.evals |-> ExtVal(g.evals[i].name, g.evals[i].vis, TyOf(g.evals[i].ty), IntAttr(g.evals[i].attrs, "address"))],
            !.impls = [i \in DOMAIN g.impls |-> Impl(g.impls[i].name, [j \in DOMAIN g.impls[i].funcs |-> ElabFunc(g.impls[i].funcs[j], FALSE)])],
            (* the texts of the backend blocks play no part in the semantic outcome *)
            !.backs = <<>>]

(* `_` is a name only for a field (a gap); the parser lets it stand for any identifier, but an item, a case or a function *)
(* called `_` cannot be emitted (the build ends with the backend's error): such texts have no image here                *)
NoBlankNames(g) ==
  /\ \A i \in DOMAIN g.defs :
        /\ g.defs[i].name # "_"
        /\ \A j \in DOMAIN g.defs[i].vars : g.defs[i].vars[j].name # "_"
        /\ \A j \in DOMAIN g.defs[i].stmts : \A k \in DOMAIN g.defs[i].stmts[j].funcs : g.defs[i].stmts[j].funcs[k].name # "_"
  /\ \A i \in DOMAIN g.exts : g.exts[i].name # "_"
  /\ \A i \in DOMAIN g.evals : g.evals[i].name # "_"
  /\ \A i \in DOMAIN g.impls : g.impls[i].name # "_" /\ \A j \in DOMAIN g.impls[i].funcs : g.impls[i].funcs[j].name # "_"

Elaborable(g) ==
  /\ NoBlankNames(g)
  /\ \A i \in DOMAIN g.attrs : IsDoc(g.attrs[i]) => g.attrs[i].value.k = "str"
  /\ \A i \in DOMAIN g.defs : IF g.defs[i].k = "type" THEN TypeOk(g.defs[i]) ELSE EnumOk(g.defs[i])
  /\ \A i \in DOMAIN g.exts : IntsSmall(g.exts[i].attrs, {"size", "align"})
  /\ \A i \in DOMAIN g.evals : IntsSmall(g.evals[i].attrs, {"address"}) /\ TySmall(g.evals[i].ty)
  /\ \A i \in DOMAIN g.impls : \A j \in DOMAIN g.impls[i].funcs : FuncOk(g.impls[i].funcs[j])
=============================================================================
