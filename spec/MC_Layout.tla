----------------------------- MODULE MC_Layout -----------------------------
(***************************************************************************)
(* Bounded input space for the layout properties C01, C02, C03 (and the    *)
(* base of the C20 rewrites): one module `m` with a main type `T` of up to *)
(* MaxFields fields over a palette of field types, every combination of    *)
(* address / size / align / packed / own vftable, both pointer widths,     *)
(* plus the helper definitions the chosen field types mention.             *)
(***************************************************************************)
EXTENDS Pyxis, Props, Json

CONSTANTS MaxFields, Addrs, Sizes, Aligns, Palette, Ptrs, WithVft, WithPacked, Names

(* constant sets for the configurations (a .cfg cannot write negative numbers) *)
QAddrs == {None, 0, 2, 4, 8}
QSizes == {None, 8, 12}
QAligns == {None, 0, 2, 4, 6}
QPalette == {"u8", "u16", "u32", "u64", "cptr", "arr16x2"}
Q3Aligns == {4}
Q3Palette == {"u8", "u32", "unk2"}
Q2Addrs == {None, 0, 8, 12}
Q2Sizes == {None}
Q2Aligns == {None, 16}
Q2Palette == {"u8", "u16", "u32", "u64", "u128", "i8", "i16", "i32", "i64", "i128", "f32", "f64", "bool",
              "cptr", "pvoid", "arr8x3", "arr16x2", "arr32x2", "arr32x0", "unk2", "N", "E", "X", "S", "Z", "arrNx2",
              "E64", "E128", "arr8x3x2", "void"}

T1Palette == {"u8", "u16", "u32", "u64", "cptr", "arr8x3"}
T1Sizes == {None, 16}
T1Aligns == {None, 4}
T2Addrs == {None, 0, 1, 2, 3, 4, 6, 8, 12}
T2Palette == {"u8", "u16", "u32", "u64", "bool", "f32", "u128", "i64", "cptr", "mptr", "pvoid", "arr8x3", "arr16x2",
              "arr32x2", "arr32x0", "unk2", "unk0", "N", "arrNx2", "Z", "E", "X", "pN"}
T2Aligns == {None, 8, 16}
T3Sizes == {None, 0, 4, 6, 8, 12}
T3Aligns == {None, 1, 2, 4, 8, 16}
T3Palette == {"u8", "u16", "u32", "cptr", "N"}
(* base sub-objects (with and without a vftable of their own) and a vftable block that is *)
(* not the first statement                                                                *)
(* derive(Default): satisfiable only when every field type is defaultable itself *)
Q5Palette == {"u32", "cptr", "N", "dN", "E", "dE", "arrNx2", "arrdNx2"}
Q4Addrs == {None, 0, 8}
Q4Palette == {"u8", "u32", "cptr", "bN", "bV"}

(* helper definitions, by name *)
HelperN == [TypeDef("N", "pub", <<Field("a", "pub", <<>>, TNm("u16"), None, FALSE),
                                   Field("b", "pub", <<>>, TNm("u16"), None, FALSE)>>)
              EXCEPT !.align = 2]
HelperZ == TypeDef("Z", "pub", <<>>)
(* a helper that is itself not realisable (size 12 is no multiple of 8): any input using it *)
(* must be rejected; a change that lets it through is seen on the embedding type          *)
HelperS == [TypeDef("S", "pub", <<Field("a", "pub", <<>>, TNm("u64"), None, FALSE),
                                   Field("b", "pub", <<>>, TNm("u32"), None, FALSE)>>)
              EXCEPT !.size = 12, !.align = 8]
HelperE == EnumDef("E", "pub", TNm("u16"), <<Variant("A", NumNone, FALSE), Variant("B", NumNone, FALSE)>>)
HelperX == ExtType("X", 8, 4)
(* enums over bases wider than a pointer (at one width or at both) *)
HelperE64 == EnumDef("E64", "pub", TNm("u64"), <<Variant("A", NumNone, FALSE), Variant("B", NumNone, FALSE)>>)
HelperE128 == EnumDef("E128", "pub", TNm("u128"), <<Variant("A", NumNone, FALSE), Variant("B", NumNone, FALSE)>>)
HelperDN == [TypeDef("DN", "pub", <<Field("a", "pub", <<>>, TNm("u16"), None, FALSE),
                                     Field("b", "pub", <<>>, TNm("u16"), None, FALSE)>>)
               EXCEPT !.align = 2, !.defaultable = TRUE]
HelperDE == [EnumDef("DE", "pub", TNm("u16"), <<Variant("A", NumNone, FALSE), Variant("B", NumNone, TRUE)>>)
               EXCEPT !.defaultable = TRUE]
HelperV == [TypeDef("V", "pub", <<Field("k", "pub", <<>>, TNm("u32"), None, FALSE)>>)
              EXCEPT !.vft = Vft(None, <<Func("vf", "pub", <<>>, <<ArgM>>, TNone, None, None, "")>>)]
IsBaseChoice(c) == c \in {"bN", "bV"}

PaletteTypes ==
  [u8 |-> TNm("u8"), u16 |-> TNm("u16"), u32 |-> TNm("u32"), u64 |-> TNm("u64"),
   bool |-> TNm("bool"), f32 |-> TNm("f32"), u128 |-> TNm("u128"), f64 |-> TNm("f64"),
   i8 |-> TNm("i8"), i16 |-> TNm("i16"), i32 |-> TNm("i32"), i64 |-> TNm("i64"), i128 |-> TNm("i128"),
   pvoid |-> TMPtr(TNm("void")), void |-> TNm("void"), arr32x2 |-> TArr(TNm("u32"), 2),
   cptr |-> TCPtr(TNm("u8")), mptr |-> TMPtr(TNm("T")),
   arr8x3 |-> TArr(TNm("u8"), 3), arr16x2 |-> TArr(TNm("u16"), 2), arr32x0 |-> TArr(TNm("u32"), 0),
   unk2 |-> TUnk(2), unk0 |-> TUnk(0),
   N |-> TNm("N"), arrNx2 |-> TArr(TNm("N"), 2), Z |-> TNm("Z"), E |-> TNm("E"), X |-> TNm("X"),
   pN |-> TCPtr(TNm("N")), S |-> TNm("S"), bN |-> TNm("N"), bV |-> TNm("V"),
   dN |-> TNm("DN"), dE |-> TNm("DE"), arrdNx2 |-> TArr(TNm("DN"), 2),
   E64 |-> TNm("E64"), E128 |-> TNm("E128"), arr8x3x2 |-> TArr(TArr(TNm("u8"), 3), 2)]

RECURSIVE Mentions(_, _)
Mentions(ty, n) ==
  CASE ty.k = "nm" -> ty.n = n
    [] ty.k \in {"unk", "none"} -> FALSE
    [] OTHER -> Mentions(ty.t, n)

FieldNames == <<"a", "b", "c", "d">>

FieldChoices == [ty : Palette, addr : Addrs, name : Names]

FieldSeqs == UNION {[1..n -> FieldChoices] : n \in 0..MaxFields}

(* the late vftable block comes with the base-bearing palette *)
VftPositions == IF "bN" \in Palette THEN {0, 1} ELSE {0}
(* ... and `defaultable` on the main type with the palette that holds defaultable helpers *)
Defaultables == IF "dN" \in Palette THEN {FALSE, TRUE} ELSE {FALSE}

VftOne == Vft(None, <<Func("vf", "pub", <<>>, <<ArgM>>, TNone, None, None, "")>>)

MkInput(ptr, fs, size, align, packed, vft, vpos, dflt) ==
  LET fields == [i \in DOMAIN fs |->
                   Field(IF fs[i].name = "_" THEN "_" ELSE FieldNames[i], "pub", <<>>,
                         PaletteTypes[fs[i].ty], fs[i].addr, IsBaseChoice(fs[i].ty))]
      uses(n) == \E i \in DOMAIN fields : Mentions(fields[i].ty, n)
      helpers == (IF uses("N") THEN <<HelperN>> ELSE <<>>)
                 \o (IF uses("Z") THEN <<HelperZ>> ELSE <<>>)
                 \o (IF uses("E") THEN <<HelperE>> ELSE <<>>)
                 \o (IF uses("S") THEN <<HelperS>> ELSE <<>>)
                 \o (IF uses("V") THEN <<HelperV>> ELSE <<>>)
                 \o (IF uses("E64") THEN <<HelperE64>> ELSE <<>>)
                 \o (IF uses("E128") THEN <<HelperE128>> ELSE <<>>)
                 \o (IF uses("DN") THEN <<HelperDN>> ELSE <<>>)
                 \o (IF uses("DE") THEN <<HelperDE>> ELSE <<>>)
      T == [TypeDef("T", "pub", fields) EXCEPT !.size = size, !.align = align,
                                               !.packed = packed, !.defaultable = dflt,
                                               !.vft = IF vft THEN [VftOne EXCEPT !.pos = vpos] ELSE NoVft]
      m == [Module(<<"m">>, <<>>, helpers \o <<T>>)
              EXCEPT !.exts = IF uses("X") THEN <<HelperX>> ELSE <<>>]
  IN [ptr |-> ptr, mods |-> <<m>>]

MCInit ==
  /\ \E ptr \in Ptrs, fs \in FieldSeqs, size \in Sizes, align \in Aligns,
        packed \in WithPacked, vft \in WithVft, vpos \in VftPositions, dflt \in Defaultables :
        /\ (vpos > 0 => (vft /\ Len(fs) >= vpos))
        /\ (\A i \in DOMAIN fs : fs[i].name = "_" => ~IsBaseChoice(fs[i].ty))
        /\ input = MkInput(ptr, fs, size, align, packed, vft, vpos, dflt)
  /\ InitRest

MCSpec == MCInit /\ [][Next]_vars /\ WF_vars(Next)


(* ------------------------------ properties ----------------------------- *)
Crate == [ptr |-> input.ptr, files |-> out, exts |-> ExtMap(input), real |-> <<>>]
TIdx == Len(input.mods[1].defs)           \* the main type is the last definition
TPath == <<"m", "T">>

(* C03 is stated for descriptions over scalars, pointers, arrays and gaps  *)
PlainInput ==
  (* ... with the vftable block, if any, where the grammar of accepted descriptions puts it *)
  /\ input.mods[1].defs[TIdx].vft.pos = 0
  /\ ~input.mods[1].defs[TIdx].defaultable
  /\ \A i \in DOMAIN input.mods[1].defs[TIdx].fields :
     ~(\E n \in {"N", "Z", "E", "X", "S", "V", "DN", "DE", "E64", "E128"} : Mentions(input.mods[1].defs[TIdx].fields[i].ty, n))

(* known finding classes (section 4 of DESIGN.md); each is FALSE once the  *)
(* corresponding repair is in                                              *)
KF_NonPow2Align ==
  LET d == input.mods[1].defs[TIdx]
  IN ~CHECKPOW2 /\ IsSome(d.align) /\ ~IsPow2(d.align)

(* `void` by value: pyxis gives it size 0, the emitted ::std::ffi::c_void has size 1 (K08) *)
RECURSIVE ByValueVoid(_)
ByValueVoid(ty) == CASE ty.k = "nm" -> ty.n = "void" [] ty.k = "arr" -> ByValueVoid(ty.t) [] OTHER -> FALSE
KF_VoidByValue == \E i \in DOMAIN input.mods[1].defs[TIdx].fields : ByValueVoid(input.mods[1].defs[TIdx].fields[i].ty)

(* for C03 the crate holds no emitted item that T's fields mention, so the *)
(* compiler model can be evaluated in every terminal state                 *)
PreCrate == [ptr |-> input.ptr, files |-> {}, exts |-> ExtMap(input), real |-> <<>>]

Inv_C03 ==
  (Terminal /\ PlainInput /\ ~KF_NonPow2Align) =>
     (Accepted <=> Realisable(PreCrate, input, 1, TIdx))

Inv_C01 ==
  Accepted => \A di \in TypeDefsOf(input.mods[1]) : P_C01(Crate, input, 1, di)

Inv_C02 ==
  Accepted =>
    /\ \A f \in out : f.items # <<>> =>
          \A n \in DOMAIN f.items : P_C02_Item(Crate, reg, Join(f.path, n))
    /\ \A di \in DOMAIN input.mods[1].defs : P_C02_Decl(Crate, input, 1, di)

(* the rustc model must be defined on everything that is emitted           *)
Inv_RustDefined ==
  Accepted => \A f \in out : f.items # <<>> =>
                 \A n \in DOMAIN f.items : IsSome(RustItem(Crate, Join(f.path, n), 8).size)

(* ------------------------- behaviours for replay ----------------------- *)
RegView ==
  LET ps == {p \in DOMAIN reg : reg[p].cat # "pre"}
  IN {[path |-> p, cat |-> reg[p].cat, st |-> reg[p].st, vis |-> reg[p].vis, res |-> reg[p].res] : p \in ps}

(* properties the *model* violates in this terminal state.  With a faithful *)
(* mirror these are defects of pyxis; the conformance step replays the     *)
(* input into the real code and reports a violation only if the code does   *)
(* it too.                                                                 *)
PViol ==
  (IF Inv_C01 THEN {} ELSE {"C01"}) \cup (IF Inv_C02 THEN {} ELSE {"C02"})
  \cup (IF Inv_C03 THEN {} ELSE {"C03"})

ReplayRecord ==
  [group |-> "layout", input |-> input, order |-> added, sched |-> hist,
   accepted |-> Accepted, err |-> err, pviol |-> PViol,
   oracle |-> [realisable |-> IF PlainInput THEN Realisable(PreCrate, input, 1, TIdx) ELSE Accepted,
               plain |-> PlainInput,
               kf |-> (IF KF_NonPow2Align THEN <<"C03:nonpow2-align">> ELSE <<>>)
                      \o (IF KF_VoidByValue THEN <<"C01:void-by-value", "C02:void-by-value", "C03:void-by-value">> ELSE <<>>),
               offs |-> IF Accepted THEN DeclOffsets(Crate, input, 1, TIdx) ELSE <<>>,
               layouts |-> IF Accepted
                           THEN UNION {{[path |-> Join(f.path, n), l |-> RustItem(Crate, Join(f.path, n), 8)]
                                        : n \in DOMAIN f.items} : f \in {g \in out : g.items # <<>>}}
                           ELSE {}],
   mirror |-> [reg |-> RegView, out |-> out]]

Replay == Terminal => PrintT(<<"REPLAY", ToJson(ReplayRecord)>>)

View == StdView

=============================================================================
