SPECIFICATION MCSpec
CONSTANTS
  SpuriousPass = FALSE
  AllSchedules = FALSE
  PermuteModules = FALSE
  NB0 = {1}
  Variants = {"same", "none"}
  WithB1 = {FALSE, TRUE}
  B1Vft = {FALSE}
  Clash = {"no"}
  DDs = {"diamond"}
  DDVft = {"no"}
  B1Names = {"b1"}
  SameName = FALSE
  XdNames = {"xd"}
  Packs = {FALSE}
  Ptrs = {4, 8}
  Lead = {FALSE}
  EmptyBlocks = {FALSE}
  Split = {FALSE}
INVARIANTS Replay
CHECK_DEADLOCK FALSE
VIEW View
