------------------------------ MODULE MC_Attrs ------------------------------
(***************************************************************************)
(* Carry-over of visibility, derives, packing and documentation (C17).     *)
(* Module m:  T (fields, impl h, marker attributes), V (vftable block),    *)
(* D { #[base] t: T }, DV { #[base] v: V }, enum E, extern value gv.       *)
(* Three sweeps: every pub/private combination on every item kind; every   *)
(* subset of the marker attributes on T and E; doc comments of 0..3 lines  *)
(* (empty lines included) on each item kind in turn.                       *)
(***************************************************************************)
EXTENDS Pyxis, Props, Json

CONSTANTS Ptrs, DocSeqs

VisSet == {"pub", "priv"}
QDocSeqs == {<<>>, <<" a">>, <<" a", " b">>, <<"">>, <<"", " a">>, <<" a", "">>, <<" a", "", " b">>, <<"  indented">>}
DocItems == {"module", "type", "field", "fn", "vfunc", "enum", "vtype", "anon"}

MkInput(ptr, vis, marks, emarks, ditem, dlines) ==
  LET dd(item) == IF ditem = item THEN dlines ELSE <<>>
      T == [TypeDef("T", vis.t, <<Field("f", vis.f, dd("field"), TNm("u32"), None, FALSE),
                                  Field("g", "priv", <<>>, TNm("u32"), 8, FALSE),
                                  (* a user-written anonymous gap: private and undocumented in the output whatever is written *)
                                  Field("_", vis.u, dd("anon"), TUnk(4), None, FALSE)>>)
              EXCEPT !.doc = dd("type"), !.copyable = marks.copy, !.cloneable = marks.clone,
                     !.defaultable = marks.dflt, !.packed = marks.packed,
                     !.align = IF marks.packed THEN None ELSE 4, !.singleton = 65536]
      V == [TypeDef("V", vis.t, <<Field("w", "pub", <<>>, TCPtr(TNm("u8")), None, FALSE)>>)
              EXCEPT !.doc = dd("vtype"),
                     (* `_raw`: a declared function whose name starts with an underscore keeps its declared visibility in the table *)
                     !.vft = Vft(3, <<Func("vf", vis.vf, dd("vfunc"), <<ArgM>>, TNone, None, None, ""),
                                      Func("_raw", vis.vf, <<>>, <<ArgM>>, TNone, None, None, "")>>)]
      (* the base field itself may be private: the inherited copies of T's public functions are public all the same *)
      D == TypeDef("D", "pub", <<Field("t", vis.b, <<>>, TNm("T"), None, TRUE),
                                 Field("x", "pub", <<>>, TNm("u32"), None, FALSE)>>)
      DV == TypeDef("DV", "pub", <<Field("v", "pub", <<>>, TNm("V"), None, TRUE),
                                   Field("k", "pub", <<>>, TCPtr(TNm("u8")), None, FALSE)>>)
      E == [EnumDef("E", vis.e, TNm("u16"), <<Variant("A", NumNone, emarks.dflt), Variant("B", NumNone, FALSE)>>)
              EXCEPT !.doc = dd("enum"), !.copyable = emarks.copy, !.cloneable = emarks.clone, !.defaultable = emarks.dflt,
                     !.singleton = IF emarks.copy THEN 131072 ELSE None]
      h == Func("h", vis.h, dd("fn"), <<ArgC>>, TNm("u32"), 4096, None, "")
      (* the same markers on a type whose layout holds arrays of more than 32 elements, declared and generated (the gap in  *)
      (* front of `far`): the derive list is the declared one all the same (that `Default` is not implemented for such    *)
      (* arrays is a documented limit of the bindings, not something to hide)                                             *)
      Big == [TypeDef("Big", "pub", <<Field("tbl", "pub", <<>>, TArr(TNm("u16"), 33), None, FALSE),
                                      Field("far", "pub", <<>>, TNm("u32"), 128, FALSE)>>)
                EXCEPT !.copyable = marks.copy, !.cloneable = marks.clone, !.defaultable = marks.dflt, !.align = 4]
      (* alignment 1 without being packed: `repr(C, align(1))`, not `repr(C, packed)` *)
      Bt == TypeDef("Bt", "pub", <<Field("b", "pub", <<>>, TNm("u8"), None, FALSE)>>)
      m == [Module(<<"m">>, <<>>, <<T, V, D, DV, E, Bt, Big>>)
              EXCEPT !.doc = dd("module"), !.impls = <<Impl("T", <<h>>)>>,
                     (* a prologue that holds an item: the module documentation still has to come first *)
                     !.backs = <<Backend("rust", "use core::ffi::c_void as Opaque;", "pub type Tail = u8;")>>,
                     !.evals = <<ExtVal("gv", vis.g, TNm("u32"), 8192)>>]
  IN [ptr |-> ptr, mods |-> <<m>>]

AllVis == [t : VisSet, f : VisSet, h : VisSet, vf : VisSet, e : VisSet, g : VisSet, u : VisSet, b : VisSet]
DefaultVis == [t |-> "pub", f |-> "pub", h |-> "pub", vf |-> "pub", e |-> "pub", g |-> "pub", u |-> "priv", b |-> "pub"]
AllMarks == [copy : BOOLEAN, clone : BOOLEAN, dflt : BOOLEAN, packed : BOOLEAN]
NoMarks == [copy |-> FALSE, clone |-> FALSE, dflt |-> FALSE, packed |-> FALSE]
AllEMarks == [copy : BOOLEAN, clone : BOOLEAN, dflt : BOOLEAN]
NoEMarks == [copy |-> FALSE, clone |-> FALSE, dflt |-> FALSE]

MCInit ==
  /\ \E ptr \in Ptrs :
       \/ \E vis \in AllVis : input = MkInput(ptr, vis, NoMarks, [NoEMarks EXCEPT !.copy = TRUE], "none", <<>>)
       \/ \E marks \in AllMarks, emarks \in AllEMarks : input = MkInput(ptr, DefaultVis, marks, emarks, "none", <<>>)
       \/ \E ditem \in DocItems, dl \in DocSeqs : input = MkInput(ptr, DefaultVis, NoMarks, NoEMarks, ditem, dl)
  /\ InitRest

MCSpec == MCInit /\ [][Next]_vars /\ WF_vars(Next)

(* ------------------------------ the oracle ----------------------------- *)
Crate == [ptr |-> input.ptr, files |-> out, exts |-> ExtMap(input), real |-> <<>>]
M == input.mods[1]
DefNamed(n) == M.defs[CHOOSE i \in DOMAIN M.defs : M.defs[i].name = n]
Item(n) == CrateItemAt(Crate, <<"m", n>>)
File == CHOOSE f \in out : f.path = <<"m">>

WantDerives(d) ==
  (IF d.copyable THEN <<"Copy">> ELSE <<>>) \o (IF d.copyable \/ d.cloneable THEN <<"Clone">> ELSE <<>>)
  \o (IF d.defaultable THEN <<"Default">> ELSE <<>>)

MethodNamed(it, n) == it.methods[CHOOSE j \in DOMAIN it.methods : it.methods[j].name = n]
FieldNamed(it, n) == it.fields[CHOOSE j \in DOMAIN it.fields : it.fields[j].name = n]

P_C17 ==
  LET T == DefNamed("T")
      V == DefNamed("V")
      E == DefNamed("E")
      t == Item("T")
      v == Item("V")
      vt == Item("VVftable")
      d == Item("D")
      dv == Item("DV")
      e == Item("E")
      h == M.impls[1].funcs[1]
      vf == V.vft.funcs[1]
  IN /\ File.doc = M.doc
     (* visibility *)
     /\ t.vis = T.vis /\ v.vis = V.vis /\ e.vis = E.vis
     /\ FieldNamed(t, "f").vis = T.fields[1].vis /\ FieldNamed(t, "g").vis = "priv"
     /\ \A i \in DOMAIN t.fields : t.fields[i].name \notin {"f", "g"} => t.fields[i].vis = "priv"   \* padding
     /\ FieldNamed(v, "vftable").vis = "priv"
     /\ MethodNamed(t, "h").vis = h.vis
     /\ (h.vis = "pub" => MethodNamed(d, "h").vis = "pub") /\ FieldNamed(d, "t").vis = DefNamed("D").fields[1].vis
     /\ MethodNamed(v, "vf").vis = vf.vis
     /\ FieldNamed(vt, "vf").vis = vf.vis /\ FieldNamed(vt, "_vfunc_2").vis = "priv"
     /\ File.evals[1].vis = M.evals[1].vis
     (* derives and packing *)
     /\ t.derives = WantDerives(T) /\ e.derives = WantDerives(E) /\ Item("Big").derives = WantDerives(DefNamed("Big"))
     /\ t.packed = T.packed /\ (T.packed => t.align = None)
     /\ v.derives = <<>> /\ vt.derives = <<>>
     (* documentation: line for line on the counterparts, nowhere else *)
     /\ t.doc = T.doc /\ v.doc = V.doc /\ e.doc = E.doc
     /\ FieldNamed(t, "f").doc = T.fields[1].doc
     /\ \A i \in DOMAIN t.fields : t.fields[i].name # "f" => t.fields[i].doc = <<>>
     /\ MethodNamed(t, "h").doc = h.doc
     /\ MethodNamed(v, "vf").doc = vf.doc /\ FieldNamed(vt, "vf").doc = vf.doc
     /\ FieldNamed(vt, "_vfunc_2").doc = <<>> /\ vt.doc = <<>>
     (* inherited copies *)
     /\ (h.vis = "pub" => MethodNamed(d, "h").doc = h.doc)
     /\ (\E j \in DOMAIN dv.methods : dv.methods[j].name = "vf") /\ MethodNamed(dv, "vf").doc = vf.doc
     /\ d.doc = <<>> /\ dv.doc = <<>>

Inv_C17 == Accepted => P_C17
PViol == IF Inv_C17 THEN {} ELSE {"C17"}

(* defaultable on T needs defaultable field types (scalars are); on E a marked variant *)
RegView ==
  LET ps == {p \in DOMAIN reg : reg[p].cat # "pre"}
  IN {[path |-> p, cat |-> reg[p].cat, st |-> reg[p].st, vis |-> reg[p].vis, res |-> reg[p].res] : p \in ps}

ReplayRecord ==
  [group |-> "attrs", input |-> input, order |-> added, sched |-> hist,
   accepted |-> Accepted, err |-> err, pviol |-> IF Terminal THEN PViol ELSE {},
   oracle |-> [kf |-> <<>>],
   mirror |-> [reg |-> RegView, out |-> out]]

Replay == Terminal => PrintT(<<"REPLAY", ToJson(ReplayRecord)>>)
View == StdView
=============================================================================
