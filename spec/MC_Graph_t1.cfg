SPECIFICATION MCSpec
CONSTANTS
  SpuriousPass = FALSE
  AllSchedules = TRUE
  PermuteModules = FALSE
  N = 4
  Kinds = {"val", "ptr", "vptr"}
  VftTypes = {1, 2}
  FnKinds = {}
  FnOwners = {}
  Twins = {"none"}
  TwoModules = FALSE
  Ptrs = {8}
INVARIANTS Inv_Passes Replay
CHECK_DEADLOCK FALSE
VIEW View
