SPECIFICATION Spec
CHECK_DEADLOCK FALSE
