SPECIFICATION Spec
CONSTANTS
  MaxLen = 9
  GenAlpha = "tiny"
INVARIANTS AllViable Replay
CHECK_DEADLOCK FALSE
