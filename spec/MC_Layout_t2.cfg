SPECIFICATION MCSpec
CONSTANTS
  SpuriousPass = FALSE
  AllSchedules = TRUE
  PermuteModules = FALSE
  MaxFields = 2
  Addrs <- T2Addrs
  Sizes <- T1Sizes
  Aligns <- T2Aligns
  Palette <- T2Palette
  Ptrs = {4, 8}
  WithVft = {FALSE, TRUE}
  WithPacked = {FALSE}
  Names = {"f"}
INVARIANTS Inv_RustDefined Replay
CHECK_DEADLOCK FALSE
VIEW View
