----------------------------- MODULE MC_Syntax -----------------------------
(***************************************************************************)
(* C18: parsing is the inverse of printing.                                *)
(* Abstract modules over the *full* grammar of src/grammar.rs (not only    *)
(* the attributes the compiler interprets): attribute shapes ident /       *)
(* function with 0..3 arguments (negative, hex-range, string, ident) /     *)
(* assignment; type nesting to depth 5; `_` fields; visibility; vftable    *)
(* and impl blocks; extern types and values; use paths; the three backend  *)
(* forms.  This module is the generator and the reference: the harness     *)
(* prints each abstract module with randomised legal trivia and spellings, *)
(* runs parser::parse_str and compares the result with the abstract module *)
(* converted to grammar::Module.                                           *)
(***************************************************************************)
EXTENDS Base, Json

CONSTANTS Rot   \* how many pool rotations to enumerate per dimension

VARIABLES gmod
vars == <<gmod>>

EInt(n) == [k |-> "int", v |-> n]
EStr(s) == [k |-> "str", v |-> s]
EId(s)  == [k |-> "ident", v |-> s]
AId(n)        == [k |-> "ident", name |-> n, args |-> <<>>, value |-> EId("")]
AFn(n, args)  == [k |-> "fn", name |-> n, args |-> args, value |-> EId("")]
AAs(n, v)     == [k |-> "assign", name |-> n, args |-> <<>>, value |-> v]

AttrPool == <<
  AId("copyable"), AFn("size", <<EInt(NumInt(16))>>), AFn("address", <<EInt(Num("u32max", 1))>>),
  AFn("foo", <<EInt(NumInt(0 - 5)), EStr("a \"quoted\" string"), EId("bar")>>), AFn("empty", <<>>),
  AAs("doc", EStr(" a doc line")), AAs("key", EId("value")), AAs("n", EInt(Num("i64min", 0))),
  AFn("calling_convention", <<EStr("thiscall")>>), AId("base"), AAs("doc", EStr("")),
  AFn("index", <<EInt(Num("i64max", 0))>>), AFn("two", <<EId("x"), EId("y")>>),
  AAs("doc", EStr(" trailing blanks  ")), AFn("calling_convention", <<EStr("cdecl ")>>), AAs("doc", EStr("   ")) >>

TypePool == <<
  TNm("u32"), TCPtr(TNm("T")), TMPtr(TCPtr(TNm("u8"))), TArr(TNm("u8"), 16),
  TArr(TArr(TMPtr(TNm("X")), 2), 3), TUnk(8), TCPtr(TArr(TCPtr(TMPtr(TNm("Deep"))), 4)),
  TNm("Shared<Thing>"), TUnk(0), TMPtr(TNm("void")), TArr(TNm("Elem"), 4096),
  TNm("Vector<SharedPtr<Vehicle>>"), TCPtr(TNm("r#type")) >>

Nth(pool, i) == pool[((i - 1) % Len(pool)) + 1]

GArg(name, ty) == [k |-> "named", name |-> name, ty |-> ty]
GFunc(vis, name, attrs, args, ret) == [vis |-> vis, name |-> name, attrs |-> attrs, args |-> args, ret |-> ret]
GSelfC == [k |-> "cself", name |-> "", ty |-> TNone]
GSelfM == [k |-> "mself", name |-> "", ty |-> TNone]

FuncPool(i) == <<
  GFunc("pub", "f0", <<>>, <<>>, TNone),
  GFunc("priv", "f1", <<Nth(AttrPool, i)>>, <<GSelfC>>, Nth(TypePool, i)),
  GFunc("pub", "f2", <<Nth(AttrPool, i), Nth(AttrPool, i + 3)>>, <<GSelfM, GArg("a", Nth(TypePool, i + 1)), GArg("b", Nth(TypePool, i + 2))>>, TNone),
  GFunc("pub", "r#match", <<>>, <<GArg("r#in", Nth(TypePool, i + 4))>>, Nth(TypePool, i + 5)),
  (* the same attribute twice in a row, and two equal doc lines: nothing is merged *)
  GFunc("priv", "_hidden", <<Nth(AttrPool, i + 1), Nth(AttrPool, i + 1), AAs("doc", EStr(" same")), AAs("doc", EStr(" same"))>>, <<GSelfM>>, TNone) >>

GField(vis, name, ty, attrs) == [k |-> "field", vis |-> vis, name |-> name, ty |-> ty, attrs |-> attrs, funcs |-> <<>>]
GVft(attrs, funcs) == [k |-> "vftable", vis |-> "priv", name |-> "", ty |-> TNone, attrs |-> attrs, funcs |-> funcs]

BackPool == <<
  [name |-> "rust", form |-> "pro", pro |-> "  use std::ffi::c_void;  ", epi |-> NoText],
  [name |-> "rust", form |-> "epi", pro |-> NoText, epi |-> "fn tail() {}"],
  [name |-> "cpp", form |-> "braced", pro |-> "#include <a.h>", epi |-> "// end"],
  [name |-> "rust", form |-> "braced", pro |-> NoText, epi |-> NoText],
  [name |-> "other", form |-> "braced", pro |-> "line one\n  line two", epi |-> NoText] >>

MkModule(i, j, vis, withVft, emptyBody) ==
  LET a1 == Nth(AttrPool, i)
      a2 == Nth(AttrPool, i + 1)
      t1 == Nth(TypePool, j)
      t2 == Nth(TypePool, j + 1)
      t3 == Nth(TypePool, j + 2)
      fns == FuncPool(i + j)
      stmts == (IF withVft THEN <<GVft(<<a2>>, SubSeq(fns, 1, ((i + j) % 5) + 1))>> ELSE <<>>)
               \o <<GField(vis, "first", t1, <<a1>>), GField("priv", "_", t2, <<>>), GField("pub", "r#ref", t3, <<a1, a2>>)>>
      T == [vis |-> vis, name |-> "Thing", k |-> "type", attrs |-> <<a1, a2>>,
            stmts |-> IF emptyBody THEN <<>> ELSE stmts, base |-> TNone, vars |-> <<>>]
      E == [vis |-> "pub", name |-> "Kind", k |-> "enum", attrs |-> <<a2>>, stmts |-> <<>>, base |-> t1,
            vars |-> <<[name |-> "A", expr |-> EId(""), has |-> FALSE, attrs |-> <<>>],
                       [name |-> "B", expr |-> EInt(Num("i32min", 0)), has |-> TRUE, attrs |-> <<AId("default")>>],
                       [name |-> "r#type", expr |-> EInt(NumInt(7)), has |-> TRUE, attrs |-> <<a1>>]>>]
  IN [attrs |-> IF i % 2 = 0 THEN <<AAs("doc", EStr(" module doc")), a1>> ELSE <<>>,
      uses |-> IF j % 3 = 0 THEN <<>> ELSE <<<<"a", "b", "C">>, <<"solo">>, <<"gen", "List<Item>">>, <<"r#mod", "r#type">>, <<"deep", "Map<Inner<Key>>">>>>,
      exts |-> <<[name |-> "Ext", attrs |-> <<AFn("size", <<EInt(NumInt(8))>>), AFn("align", <<EInt(NumInt(4))>>)>>],
                 [name |-> "Vec<Thing>", attrs |-> <<a2>>], [name |-> "Outer<Inner<r#in>>", attrs |-> <<>>]>>,
      evals |-> <<[vis |-> vis, name |-> "global", ty |-> t2, attrs |-> <<AFn("address", <<EInt(NumInt(4096))>>), a1>>]>>,
      defs |-> <<T, E>>,
      impls |-> <<[name |-> "Thing", attrs |-> <<a1>>, funcs |-> SubSeq(fns, 1 + (j % 3), 5)]>>,
      backs |-> <<Nth(BackPool, i), Nth(BackPool, i + j)>>]

Init == \E i \in 1..Rot, j \in 1..Rot, vis \in {"pub", "priv"}, withVft \in BOOLEAN, emptyBody \in BOOLEAN :
           gmod = MkModule(i, j, vis, withVft, emptyBody)
Next == UNCHANGED vars
Spec == Init /\ [][Next]_vars

Replay == PrintT(<<"REPLAY", ToJson([group |-> "syntax", gmod |-> gmod])>>)
=============================================================================
