------------------------------- MODULE Base -------------------------------
(***************************************************************************)
(* Common vocabulary of the pyxis specification: optional integers, the    *)
(* abstract syntax of a .pyxis input set (what parser::parse_str returns,  *)
(* projected onto the attributes the compiler interprets), paths, and a    *)
(* few sequence helpers.  Everything here is a constant-level operator.    *)
(***************************************************************************)
EXTENDS Naturals, Integers, Sequences, FiniteSets, TLC, Arith

(* "absent" for an optional integer slot.  TLC cannot compare an integer   *)
(* with a string, so every optional slot keeps one type.                   *)
None == -999999
IsSome(x) == x # None

Max(a, b) == IF a >= b THEN a ELSE b
Min(a, b) == IF a <= b THEN a ELSE b

RECURSIVE Gcd(_, _)
Gcd(a, b) == IF b = 0 THEN a ELSE Gcd(b, a % b)

RECURSIVE IsPow2(_)
IsPow2(n) == n >= 1 /\ (n = 1 \/ (n % 2 = 0 /\ IsPow2(n \div 2)))

(* RoundUp: Arith.tla (with its TLAPS theorems in ArithProofs.tla) *)

(* ------------------- symbolic integers (enum values) ------------------- *)
(* TLC's integers are 32 bit; discriminants range over isize.  A value is  *)
(* an anchor plus a small offset, [a |-> anchor, d |-> delta]; anchors are *)
(* far apart, so order is lexicographic in (rank of anchor, delta) as long *)
(* as |delta| stays small.  The harness maps anchors to concrete literals. *)
Anchors == <<"i128min", "i64min", "i32min", "i16min", "i8min", "0", "i8max", "u8max", "i16max", "u16max",
             "i32max", "u32max", "p60", "p61", "p62", "i64max", "u64max", "i128max", "u128max">>
AnchorRank(a) == CHOOSE i \in DOMAIN Anchors : Anchors[i] = a
NumNone == [a |-> "none", d |-> 0]
Num(a, d) == [a |-> a, d |-> d]
NumInt(n) == [a |-> "0", d |-> n]          \* small plain integers
NumSucc(x) == [x EXCEPT !.d = @ + 1]
NumLE(x, y) == AnchorRank(x.a) < AnchorRank(y.a) \/ (x.a = y.a /\ x.d <= y.d)

(* ------------------------------ sequences ------------------------------ *)
Last(s) == s[Len(s)]
Front(s) == SubSeq(s, 1, Len(s) - 1)
Range(s) == {s[i] : i \in DOMAIN s}
SeqMap(F(_), s) == [i \in DOMAIN s |-> F(s[i])]

RECURSIVE SeqSum(_)
SeqSum(s) == IF s = <<>> THEN 0 ELSE Head(s) + SeqSum(Tail(s))

(* index of the first element satisfying T, or 0 *)
FirstIdx(s, T(_)) ==
  IF \E i \in DOMAIN s : T(s[i])
  THEN CHOOSE i \in DOMAIN s : T(s[i]) /\ \A j \in 1..(i-1) : ~T(s[j])
  ELSE 0
(* index of the last element satisfying T, or 0 *)
LastIdx(s, T(_)) ==
  IF \E i \in DOMAIN s : T(s[i])
  THEN CHOOSE i \in DOMAIN s : T(s[i]) /\ \A j \in (i+1)..Len(s) : ~T(s[j])
  ELSE 0

RECURSIVE Flatten(_)
Flatten(ss) == IF ss = <<>> THEN <<>> ELSE Head(ss) \o Flatten(Tail(ss))

(* -------------------------------- names -------------------------------- *)
(* `r#` is not part of a Rust identifier: `r#a` and `a` are the same name   *)
Plain(n) == IF Len(n) > 2 /\ SubSeq(n, 1, 2) = "r#" THEN SubSeq(n, 3, Len(n)) ELSE n
HasDupNames(s) == \E i, j \in DOMAIN s : i < j /\ Plain(s[i]) = Plain(s[j])
NamesOf(s) == [i \in DOMAIN s |-> s[i].name]

(* ------------------------------- syntax -------------------------------- *)
(* Type expressions as written in a description.                           *)
TNone      == [k |-> "none"]
TNm(n)     == [k |-> "nm", n |-> n]
TCPtr(t)   == [k |-> "cptr", t |-> t]
TMPtr(t)   == [k |-> "mptr", t |-> t]
TArr(t, l) == [k |-> "arr", t |-> t, len |-> l]
TUnk(l)    == [k |-> "unk", len |-> l]

(* Resolved types (semantic::types::Type).                                 *)
RRaw(p)    == [k |-> "raw", p |-> p]
RCPtr(t)   == [k |-> "cptr", t |-> t]
RMPtr(t)   == [k |-> "mptr", t |-> t]
RArr(t, l) == [k |-> "arr", t |-> t, len |-> l]
RFn(cc, args, ret) == [k |-> "fn", cc |-> cc, args |-> args, ret |-> ret]

(* A path is a sequence of strings; the root module is <<>>.               *)
Parent(p) == Front(p)
Join(p, n) == Append(p, n)

(* Field / Func / Def / Module constructors: one record shape per kind so  *)
(* that TLC can compare any two of them.                                   *)
Field(name, vis, doc, ty, addr, base) ==
  [name |-> name, vis |-> vis, doc |-> doc, ty |-> ty, addr |-> addr, base |-> base]

ArgC == [k |-> "cself", name |-> "", ty |-> TNone]
ArgM == [k |-> "mself", name |-> "", ty |-> TNone]
Arg(name, ty) == [k |-> "named", name |-> name, ty |-> ty]

(* xattrs: further attributes, as raw text, next to the interpreted ones (a second *)
(* calling_convention attribute, attributes the compiler does not know)           *)
Func(name, vis, doc, args, ret, addr, index, cc) ==
  [name |-> name, vis |-> vis, doc |-> doc, args |-> args, ret |-> ret,
   addr |-> addr, index |-> index, cc |-> cc, xattrs |-> <<>>]
BogusCC == "calling_convention(\"bogus\")"
HasBadExtra(f) == "xattrs" \in DOMAIN f /\ \E i \in DOMAIN f.xattrs : f.xattrs[i] = BogusCC

NoVft == [has |-> FALSE, pos |-> 0, size |-> None, funcs |-> <<>>, doc |-> <<>>]
Vft(size, funcs) == [has |-> TRUE, pos |-> 0, size |-> size, funcs |-> funcs, doc |-> <<>>]

TypeDef(name, vis, fields) ==
  [k |-> "type", name |-> name, vis |-> vis, doc |-> <<>>,
   size |-> None, align |-> None, singleton |-> None, packed |-> FALSE,
   copyable |-> FALSE, cloneable |-> FALSE, defaultable |-> FALSE,
   vft |-> NoVft, fields |-> fields]

(* val : a symbolic integer, NumNone when no value is written              *)
(* raw: a value written as something else than an integer literal (an identifier, a string), as text *)
Variant(name, val, dflt) == [name |-> name, val |-> val, dflt |-> dflt, doc |-> <<>>, raw |-> ""]
HasRawValue(vs) == \E i \in DOMAIN vs : "raw" \in DOMAIN vs[i] /\ vs[i].raw # ""
EnumDef(name, vis, base, vars) ==
  [k |-> "enum", name |-> name, vis |-> vis, doc |-> <<>>, base |-> base,
   vars |-> vars, singleton |-> None,
   copyable |-> FALSE, cloneable |-> FALSE, defaultable |-> FALSE]

ExtType(name, size, align) == [name |-> name, size |-> size, align |-> align]
ExtVal(name, vis, ty, addr) == [name |-> name, vis |-> vis, ty |-> ty, addr |-> addr]
(* battrs: attributes written on the impl block itself (raw text; the code stores and ignores them) *)
Impl(name, funcs) == [name |-> name, funcs |-> funcs, battrs |-> <<>>]
(* a backend block; "\n" marks an absent prologue / epilogue               *)
NoText == "\n"
Backend(name, pro, epi) == [name |-> name, pro |-> pro, epi |-> epi]

Module(path, uses, defs) ==
  [path |-> path, doc |-> <<>>, uses |-> uses, exts |-> <<>>, evals |-> <<>>,
   defs |-> defs, impls |-> <<>>, backs |-> <<>>]

=============================================================================
