-------------------------------- MODULE Det --------------------------------
(***************************************************************************)
(* The same machine as Pyxis.tla, stepped as a function: one fixed choice  *)
(* (CHOOSE) wherever the real one is free.  Used as the reference outcome  *)
(* for C09 (every behaviour ends like this one) and to compare the         *)
(* outcomes of two related inputs inside one TLC state (C19, C20).         *)
(***************************************************************************)
EXTENDS Pyxis

RECURSIVE DetAdd(_, _, _)
DetAdd(inp, st, mi) ==
  IF mi > Len(inp.mods) THEN st
  ELSE LET m == inp.mods[mi]
           e == IF AddModuleError(m) # "" THEN AddModuleError(m)
                ELSE IF CHECKDUP /\ DupInModule(st.reg, m) THEN "duplicate-definition" ELSE ""
           paths == {Join(m.path, m.defs[i].name) : i \in DOMAIN m.defs}
                      \cup {Join(m.path, m.exts[i].name) : i \in DOMAIN m.exts}
       IN IF e # "" THEN [st EXCEPT !.phase = "failed", !.err = e]
          ELSE DetAdd(inp, [st EXCEPT
                 !.mods = [q \in (DOMAIN st.mods) \cup {m.path} |->
                             IF q = m.path THEN [mi |-> mi, defs |-> paths] ELSE st.mods[q]],
                 !.reg = PutExts(PutDefs(st.reg, mi, m, 1, Len(m.defs)), mi, m, 1, Len(m.exts))],
                 mi + 1)

RECURSIVE DetPass(_, _, _)
DetPass(inp, st, todo_) ==
  IF todo_ = {} \/ st.phase = "failed" THEN st
  ELSE LET p == CHOOSE q \in todo_ : TRUE
           item == st.reg[p]
           m == inp.mods[st.mods[Parent(p)].mi]
           d == inp.mods[item.src[1]].defs[item.src[2]]
           a == Attempt(st.reg, inp.ptr, m, item.src, p, d)
           reg1 == ApplyIns(st.reg, a.ins)
           st1 == IF item.st = "R" THEN st
                  ELSE [st EXCEPT !.mods = NoteDefs(st.mods, a.ins),
                                  !.reg = IF a.r = "ok" THEN [reg1 EXCEPT ![p] = [@ EXCEPT !.st = "R", !.res = a.res]]
                                          ELSE reg1,
                                  !.phase = IF a.r = "fail" THEN "failed" ELSE @,
                                  !.err = IF a.r = "fail" THEN a.why ELSE @]
       IN DetPass(inp, st1, todo_ \ {p})

RECURSIVE DetBuild(_, _, _)
DetBuild(inp, st, fuel) ==
  LET u == Unresolved(st.reg)
  IN IF st.phase = "failed" \/ u = {} \/ fuel = 0 THEN st
     ELSE LET st1 == DetPass(inp, st, u)
          IN IF st1.phase = "failed" THEN st1
             ELSE IF Unresolved(st1.reg) = u THEN [st1 EXCEPT !.phase = "failed", !.err = "nonterm"]
             ELSE DetBuild(inp, st1, fuel - 1)

DetRunOn(inp) ==
  LET s0 == DetAdd(inp, [phase |-> "adding", err |-> "", mods |-> RootMods, reg |-> InitialReg], 1)
      s1 == DetBuild(inp, s0, 16)
      extOk == \A q \in DOMAIN s1.mods : q # <<>> =>
                  LET m == inp.mods[s1.mods[q].mi]
                  IN \A i \in DOMAIN m.evals : ResolveTy(s1.reg, ScopeOf(m), m.evals[i].ty) # TNone
  IN IF s1.phase = "failed" THEN [ok |-> FALSE, out |-> {}, unres |-> Unresolved(s1.reg), err |-> s1.err]
     ELSE IF ~extOk THEN [ok |-> FALSE, out |-> {}, unres |-> {}, err |-> "unresolved-extern-value"]
     ELSE [ok |-> TRUE, err |-> "", unres |-> {},
           out |-> {EmitModule(s1.reg, inp.ptr, inp.mods[s1.mods[q].mi], s1.mods[q].defs) :
                      q \in (DOMAIN s1.mods) \ {<<>>}}]


=============================================================================
