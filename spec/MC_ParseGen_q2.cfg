SPECIFICATION Spec
CONSTANTS
  MaxLen = 6
  GenAlpha = "small"
INVARIANTS AllViable Replay
CHECK_DEADLOCK FALSE
