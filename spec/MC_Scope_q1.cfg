SPECIFICATION MCSpec
CONSTANTS
  SpuriousPass = FALSE
  AllSchedules = FALSE
  PermuteModules = FALSE
  TypeNames = {"X", "u16"}
  DefSets <- AllDefSets
  UseSeqs <- QUseSeqs
  Perts <- QPerts
  Ptrs = {4}
INVARIANTS Replay
CHECK_DEADLOCK FALSE
VIEW View
