---------------------------- MODULE MC_FilesMap ----------------------------
(* The file mapping of Files.tla checked on a bounded universe of trees: names with and without dots, a   *)
(* directory named like a file stem, depth 0..2.                                                          *)
EXTENDS Files, TLC
Names == {"a", "c", "c.v1", "types", "r#m"}
Universe == {SrcFile(<<>>, s) : s \in Names} \cup {SrcFile(<<d>>, s) : d \in Names, s \in Names}
             \cup {SrcFile(<<d, e>>, s) : d \in {"a", "c.v1"}, e \in {"c", "c.v1"}, s \in {"a", "c.v1"}}
ASSUME \A f \in Universe : SameRelativePlace(f) /\ RoundTrip(f)
ASSUME Injective(Universe)
ASSUME OutRel(<<"c.v1">>) = "c.v1.rs" /\ OutRel(<<"c">>) = "c.rs" /\ OutRel(<<"c.v1", "sub">>) = "c.v1/sub.rs"
VARIABLE x
Init == x = 0
Next == UNCHANGED x
Spec == Init /\ [][Next]_x
=============================================================================
