------------------------------- MODULE FilesCore -------------------------------
(***************************************************************************)
(* The file layer of pyxis::build (src/lib.rs, ItemPath::from_path,        *)
(* backends::rust::write_module): which module a `.pyxis` file is, and     *)
(* which file a module is written to.                                      *)
(*                                                                         *)
(* A source file is given by its directory components below the input      *)
(* directory and the stem of its name (what precedes the final `.pyxis`;   *)
(* the stem and the directory names may contain dots).  The module path is *)
(* the directory components followed by the stem; the output file has the  *)
(* same directory components and the name  <stem>.rs.                      *)
(***************************************************************************)
EXTENDS Naturals, Sequences, FiniteSets


SrcFile(dirs, stem) == [dirs |-> dirs, stem |-> stem]
ModuleOfFile(f) == Append(f.dirs, f.stem)                 \* ItemPath::from_path(relative path)
FileOfModule(p) == SrcFile(SubSeq(p, 1, Len(p) - 1), p[Len(p)])
OutDirs(p) == SubSeq(p, 1, Len(p) - 1)
OutName(p) == p[Len(p)] \o ".rs"                           \* not set_extension: `c.v1` is written to `c.v1.rs`

(* what C14 needs of the mapping, on paths as sequences *)
SamePlaceSeq(f) == OutDirs(ModuleOfFile(f)) = f.dirs /\ OutName(ModuleOfFile(f)) = f.stem \o ".rs"
RoundTrip(f) == FileOfModule(ModuleOfFile(f)) = f
=============================================================================
