SPECIFICATION MCSpec
CONSTANTS
  SpuriousPass = FALSE
  AllSchedules = TRUE
  PermuteModules = FALSE
  MaxFields = 2
  Addrs <- QAddrs
  Sizes <- QSizes
  Aligns <- QAligns
  Palette <- QPalette
  Ptrs = {4, 8}
  WithVft = {FALSE, TRUE}
  WithPacked = {FALSE, TRUE}
  Names = {"f"}
INVARIANTS Inv_RustDefined Replay
CHECK_DEADLOCK FALSE
VIEW View
