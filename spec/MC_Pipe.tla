------------------------------ MODULE MC_Pipe ------------------------------
(***************************************************************************)
(* The whole pipeline as one specification, from text to outcome:          *)
(*                                                                         *)
(*      tokens --ParseToks--> abstract module --Elaborate--> description   *)
(*             --Pyxis machine--> registry, emitted items                  *)
(*                                                                         *)
(* The inputs are every single-token mutation of a few base texts that are *)
(* semantically meaningful (a laid-out type with addresses, size, align, a *)
(* gap; a type with a vftable block, an extern type, an enum, a pointer;   *)
(* a singleton with an impl function): an attribute stated twice, dropped, *)
(* moved, given another number; a field or a keyword replaced.  A mutant   *)
(* that is still a module of the language and has an image in Base.tla is  *)
(* run through the machine; the layout properties (C01, C02, C03) are      *)
(* evaluated on it exactly as in MC_Layout, and the harness feeds the      *)
(* mutated TEXT (not a rendering of the description) to pyxis.             *)
(***************************************************************************)
EXTENDS Interp, Props, Json

P == INSTANCE Parse

CONSTANTS Ptrs, PipeBases, PipeAlpha    \* PipeAlpha: "small" | "full"

N1(x) == <<x>>
I(n) == P!X_EInt(NumInt(n))
AG(parts) == P!X_Attrs(<<P!X_AttrGroup(FALSE, parts)>>)
U(n) == P!X_Nm(N1(n))

BaseTexts == <<
  (* 1: plain layout: explicit size and alignment, an address, an array, a gap *)
  P!X_Mod(P!NoAttrs,
    <<P!It("def", P!X_Type(AG(<<P!X_AFn("size", <<I(24)>>), P!X_AFn("align", <<I(8)>>)>>), "pub", "T",
        <<P!X_Field(P!NoAttrs, "pub", "a", U("u32")),
          P!X_Field(AG(<<P!X_AFn("address", <<I(8)>>)>>), "pub", "b", U("u64")),
          P!X_Field(P!NoAttrs, "pub", "c", P!X_Arr(U("u16"), NumInt(2))),
          P!X_Field(P!NoAttrs, "priv", "_", P!X_Unk(NumInt(4)))>>))>>),
  (* 2: vftable block with an index, extern type, enum, pointer to the type itself *)
  P!X_Mod(P!NoAttrs,
    <<P!It("ext", P!X_ExtType(AG(<<P!X_AFn("size", <<I(8)>>), P!X_AFn("align", <<I(4)>>)>>), N1("X"))),
      P!It("def", P!X_Enum(P!NoAttrs, "pub", "E", U("u16"), <<P!X_Var(P!NoAttrs, "A"), P!X_VarEq(P!NoAttrs, "B", I(3))>>)),
      P!It("def", P!X_Type(P!NoAttrs, "pub", "T",
        <<P!X_Vft(P!NoAttrs, <<P!X_Func(AG(<<P!X_AFn("index", <<I(1)>>)>>), "pub", "f", <<P!X_SelfC, P!X_Arg("v", U("u32"))>>, U("u32"))>>),
          P!X_Field(AG(<<P!X_AFn("address", <<I(16)>>)>>), "pub", "x", U("X")),
          P!X_Field(P!NoAttrs, "pub", "e", U("E")),
          P!X_Field(AG(<<P!X_AFn("address", <<I(32)>>)>>), "pub", "p", P!X_CPtr(U("T")))>>))>>),
  (* 3: packed type with a singleton and an impl function with address and convention *)
  P!X_Mod(P!NoAttrs,
    <<P!It("def", P!X_Type(AG(<<P!X_AId("packed"), P!X_AFn("singleton", <<I(4096)>>)>>), "pub", "T",
        <<P!X_Field(P!NoAttrs, "pub", "a", U("u8")), P!X_Field(P!NoAttrs, "pub", "w", U("u32"))>>)),
      P!It("impl", P!X_Impl(P!NoAttrs, "T",
        <<P!X_Func(AG(<<P!X_AFn("address", <<I(8192)>>), P!X_AFn("calling_convention", <<P!X_EStr("cdecl")>>)>>),
                   "pub", "g", <<P!X_SelfC, P!X_Arg("k", U("u32"))>>, U("u32"))>>))>>),
  (* 4: an empty vftable block still stands for the pointer: implicitly placed fields come after it *)
  P!X_Mod(P!NoAttrs,
    <<P!It("def", P!X_Type(P!NoAttrs, "pub", "T",
        <<P!X_Vft(P!NoAttrs, <<>>),
          P!X_Field(P!NoAttrs, "pub", "a", P!X_CPtr(U("u8"))),
          P!X_Field(AG(<<P!X_AFn("address", <<I(24)>>)>>), "pub", "c", U("u64"))>>))>>),
  (* 5: an addressed gap that is an array of wider elements, with padding in front of it and a named field behind it *)
  P!X_Mod(P!NoAttrs,
    <<P!It("def", P!X_Type(AG(<<P!X_AFn("align", <<I(4)>>)>>), "pub", "T",
        <<P!X_Field(P!NoAttrs, "pub", "a", U("u32")),
          P!X_Field(AG(<<P!X_AFn("address", <<I(8)>>)>>), "priv", "_", P!X_Arr(U("u32"), NumInt(2))),
          P!X_Field(P!NoAttrs, "pub", "b", U("u32"))>>))>>),
  (* 6: markers: a copyable, defaultable type over a copyable, defaultable enum and an array *)
  P!X_Mod(P!NoAttrs,
    <<P!It("def", P!X_Enum(AG(<<P!X_AId("copyable"), P!X_AId("defaultable")>>), "pub", "E", U("u8"),
        <<P!X_Var(AG(<<P!X_AId("default")>>), "A"), P!X_VarEq(P!NoAttrs, "B", I(3))>>)),
      P!It("def", P!X_Type(AG(<<P!X_AId("copyable"), P!X_AId("defaultable"), P!X_AFn("align", <<I(4)>>)>>), "pub", "T",
        <<P!X_Field(P!NoAttrs, "pub", "e", U("E")), P!X_Field(P!NoAttrs, "pub", "n", P!X_Arr(U("u8"), NumInt(3)))>>))>>)
>>

AlphaSmall == <<P!Pu("#"), P!Pu("["), P!Pu("]"), P!Pu("("), P!Pu(")"), P!Pu(","), P!Pu(":"), P!Pu("_"), P!Kw("pub"),
           P!Id("size"), P!Id("align"), P!Id("address"), P!Id("packed"), P!Id("base"), P!Id("index"), P!Id("u8"), P!Id("u64"), P!Id("T"),
           P!Id("copyable"), P!Id("cloneable"), P!Id("default"),
           P!In(NumInt(0)), P!In(NumInt(1)), P!In(NumInt(3)), P!In(NumInt(4)), P!In(NumInt(8)), P!In(NumInt(16)), P!In(NumInt(0 - 8)),
           P!St("thiscall"), P!St("pascal")>>
Alpha == IF PipeAlpha = "small" THEN AlphaSmall
         ELSE AlphaSmall \o <<P!Pu("{"), P!Pu("}"), P!Pu(";"), P!Pu("="), P!Pu("<"), P!Pu(">"), P!Pu("*"), P!Pu("&"), P!Pu("!"),
                               P!Kw("const"), P!Kw("mut"), P!Kw("type"), P!Kw("enum"), P!Kw("fn"), P!Kw("self"),
                               P!Id("singleton"), P!Id("defaultable"), P!Id("calling_convention"), P!Id("doc"), P!Id("vftable"), P!Id("unknown"),
                               P!Id("u16"), P!Id("u32"), P!Id("E"), P!Id("X"),
                               P!In(NumInt(2)), P!In(NumInt(12)), P!In(NumInt(24)), P!In(NumInt(32)), P!In(NumInt(64)), P!St(" doc line")>>

(* the bracket that closes the attribute opened by the `#` at i (0 when i opens none) *)
RECURSIVE CloseFrom(_, _, _)
CloseFrom(s, j, depth) ==
  IF j > Len(s) THEN 0
  ELSE IF s[j] = P!Pu("[") THEN CloseFrom(s, j + 1, depth + 1)
  ELSE IF s[j] = P!Pu("]") THEN (IF depth = 1 THEN j ELSE CloseFrom(s, j + 1, depth - 1))
  ELSE CloseFrom(s, j + 1, depth)
AttrEnd(s, i) == IF s[i] = P!Pu("#") /\ i < Len(s) /\ s[i + 1] = P!Pu("[") THEN CloseFrom(s, i + 1, 0) ELSE 0
(* an earlier statement of the same attributes with other numbers: the later (original) statement counts *)
Shifted(seg) == [k \in DOMAIN seg |-> IF seg[k].k = "int" THEN P!In(NumInt(seg[k].n.d + 8)) ELSE seg[k]]

Mutations(s) ==
  {[op |-> "none", i |-> 0, a |-> 0]}
  \cup {[op |-> "restate", i |-> i, a |-> 0] : i \in {k \in DOMAIN s : AttrEnd(s, k) # 0}}
  \cup {[op |-> "del", i |-> i, a |-> 0] : i \in DOMAIN s}
  \cup {[op |-> "swap", i |-> i, a |-> 0] : i \in 1..(Len(s) - 1)}
  \cup {[op |-> "dup", i |-> i, a |-> 0] : i \in DOMAIN s}
  \cup {[op |-> "rep", i |-> i, a |-> a] : i \in DOMAIN s, a \in DOMAIN Alpha}
  \cup {[op |-> "ins", i |-> i, a |-> a] : i \in 1..(Len(s) + 1), a \in DOMAIN Alpha}

Apply(s, mu) ==
  CASE mu.op = "none" -> s
    [] mu.op = "del"  -> SubSeq(s, 1, mu.i - 1) \o SubSeq(s, mu.i + 1, Len(s))
    [] mu.op = "swap" -> [s EXCEPT ![mu.i] = s[mu.i + 1], ![mu.i + 1] = s[mu.i]]
    [] mu.op = "dup"  -> SubSeq(s, 1, mu.i) \o SubSeq(s, mu.i, Len(s))
    [] mu.op = "restate" -> SubSeq(s, 1, mu.i - 1) \o Shifted(SubSeq(s, mu.i, AttrEnd(s, mu.i))) \o SubSeq(s, mu.i, Len(s))
    [] mu.op = "rep"  -> [s EXCEPT ![mu.i] = Alpha[mu.a]]
    [] OTHER          -> SubSeq(s, 1, mu.i - 1) \o <<Alpha[mu.a]>> \o SubSeq(s, mu.i, Len(s))

(* the mutants that are modules of the language with an image in Base.tla whose last definition is the type T *)
Usable(s) ==
  LET v == P!ParseToks(s)
  IN /\ v.ok /\ Elaborable(v.m)
     /\ v.m.defs # <<>> /\ Last(v.m.defs).k = "type" /\ Last(v.m.defs).name = "T"

VARIABLES toks
pvars == <<vars, toks>>

MCInit ==
  /\ \E ptr \in Ptrs, b \in PipeBases : \E mu \in Mutations(BaseTexts[b].t) :
        LET s == Apply(BaseTexts[b].t, mu)
        IN /\ Usable(s)
           /\ toks = s
           /\ input = [ptr |-> ptr, mods |-> <<Elaborate(P!ParseToks(s).m, <<"m">>)>>]
  /\ InitRest

MCNext == Next /\ UNCHANGED toks
MCSpec == MCInit /\ [][MCNext]_pvars /\ WF_pvars(MCNext)

(* ------------------------------ properties ----------------------------- *)
Crate == [ptr |-> input.ptr, files |-> out, exts |-> ExtMap(input), real |-> <<>>]
TIdx == Len(input.mods[1].defs)
PreCrate == [ptr |-> input.ptr, files |-> {}, exts |-> ExtMap(input), real |-> <<>>]

RECURSIVE PlainTy(_)
PlainTy(ty) == CASE ty.k = "nm" -> ty.n \in BuiltinNames \ {"void"}
                 [] ty.k = "unk" -> TRUE
                 [] ty.k = "arr" -> PlainTy(ty.t)
                 [] ty.k \in {"cptr", "mptr"} -> TRUE
                 [] OTHER -> FALSE
(* C03 is stated for descriptions over scalars, pointers, arrays and gaps  *)
PlainInput ==
  LET d == input.mods[1].defs[TIdx]
  IN /\ Len(input.mods[1].defs) = 1 /\ input.mods[1].exts = <<>> /\ input.mods[1].impls = <<>> /\ input.mods[1].evals = <<>>
     /\ ~d.vft.has /\ ~d.defaultable /\ ~d.copyable /\ ~d.cloneable /\ ~IsSome(d.singleton)
     /\ \A i \in DOMAIN d.fields : PlainTy(d.fields[i].ty) /\ ~d.fields[i].base
     /\ ~NameClash(input)

Inv_C03 == (Terminal /\ PlainInput) => (Accepted <=> Realisable(PreCrate, input, 1, TIdx))
Inv_C01 == Accepted => \A di \in TypeDefsOf(input.mods[1]) : P_C01(Crate, input, 1, di)
Inv_C02 ==
  Accepted =>
    /\ \A f \in out : f.items # <<>> => \A n \in DOMAIN f.items : P_C02_Item(Crate, reg, Join(f.path, n))
    /\ \A di \in DOMAIN input.mods[1].defs : P_C02_Decl(Crate, input, 1, di)

PViol == (IF Inv_C01 THEN {} ELSE {"C01"}) \cup (IF Inv_C02 THEN {} ELSE {"C02"}) \cup (IF Inv_C03 THEN {} ELSE {"C03"})

RegView ==
  LET ps == {p \in DOMAIN reg : reg[p].cat # "pre"}
  IN {[path |-> p, cat |-> reg[p].cat, st |-> reg[p].st, vis |-> reg[p].vis, res |-> reg[p].res] : p \in ps}

ReplayRecord ==
  [group |-> "layout", input |-> input, toks |-> P!EncAll(toks), order |-> added, sched |-> hist,
   accepted |-> Accepted, err |-> err, pviol |-> PViol,
   oracle |-> [realisable |-> IF PlainInput THEN Realisable(PreCrate, input, 1, TIdx) ELSE Accepted,
               plain |-> PlainInput, kf |-> <<>>,
               offs |-> IF Accepted THEN DeclOffsets(Crate, input, 1, TIdx) ELSE <<>>,
               layouts |-> IF Accepted
                           THEN UNION {{[path |-> Join(f.path, n), l |-> RustItem(Crate, Join(f.path, n), 8)]
                                        : n \in DOMAIN f.items} : f \in {g \in out : g.items # <<>>}}
                           ELSE {}],
   mirror |-> [reg |-> RegView, out |-> out]]

Replay == Terminal => PrintT(<<"REPLAY", ToJson(ReplayRecord)>>)
View == <<StdView, toks>>
=============================================================================
