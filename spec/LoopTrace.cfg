SPECIFICATION TraceSpec
CONSTANTS
  SpuriousPass = TRUE
  PermuteModules = TRUE
  AllSchedules = TRUE
POSTCONDITION TraceAccepted
CHECK_DEADLOCK FALSE
