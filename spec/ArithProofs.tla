--------------------------- MODULE ArithProofs ----------------------------
(***************************************************************************)
(* TLAPS proofs about Arith.tla, for naturals of ANY size (TLC only sees   *)
(* the few alignments and sizes of its bounded models):                    *)
(*   RoundUpFacts     RoundUp(n, a) is a multiple of a in n .. n + a - 1   *)
(*   FixedIffAligned  RoundUp(n, a) = n  <=>  n % a = 0: a repr(C) field   *)
(*                    that follows n bytes sits at n exactly when n is a   *)
(*                    multiple of its alignment, and a struct whose last   *)
(*                    field ends at n has size n exactly when n is a       *)
(*                    multiple of its alignment -- the bridge between the  *)
(*                    remainders of Realisable (Props.tla) / Resolve.tla   *)
(*                    and the offsets of RustLayout.tla                    *)
(*   PaddedPlace      after explicit padding up to an aligned address the  *)
(*                    compiler adds none: the field sits at the address    *)
(*   SlotBase/Step    n pointer-sized slots under repr(C): slot i sits at  *)
(*                    i times the pointer width (induction skeleton, C04)  *)
(*   ArrayStride      element size a multiple of the element alignment =>  *)
(*                    every element of an array is aligned                 *)
(* Checked by `tlapm ArithProofs.tla`.                                     *)
(***************************************************************************)
EXTENDS Arith, TLAPS

LEMMA DivMod == ASSUME NEW m \in Nat, NEW a \in Nat \ {0}
                PROVE  /\ m = (m \div a) * a + (m % a)
                       /\ m % a \in 0..(a - 1)
                       /\ m \div a \in Nat
  OBVIOUS

LEMMA MulPos == ASSUME NEW x \in Int, NEW a \in Nat \ {0}, x >= 1 PROVE x * a >= a
<1>1. (x - 1) * a >= 0 OBVIOUS
<1>2. (x - 1) * a = x * a - a OBVIOUS
<1> QED BY <1>1, <1>2

LEMMA Unique ==
  ASSUME NEW a \in Nat \ {0}, NEW k \in Int, NEW d \in Int, NEW r \in 0..(a - 1), NEW s \in 0..(a - 1),
         k * a + r = d * a + s
  PROVE  k = d /\ r = s
<1> DEFINE x == k * a
<1> DEFINE y == d * a
<1>0. x \in Int /\ y \in Int OBVIOUS
<1>1. x + r = y + s OBVIOUS
<1> HIDE DEF x, y
<1>2. x - y = s - r /\ y - x = r - s BY <1>0, <1>1
<1>3. (k - d) * a = x - y /\ (d - k) * a = y - x BY DEF x, y
<1>4. ~(k - d >= 1)
  <2>1. ASSUME k - d >= 1 PROVE FALSE
    <3>1. (k - d) * a >= a BY <2>1, MulPos
    <3> QED BY <3>1, <1>2, <1>3
  <2> QED BY <2>1
<1>5. ~(d - k >= 1)
  <2>1. ASSUME d - k >= 1 PROVE FALSE
    <3>1. (d - k) * a >= a BY <2>1, MulPos
    <3> QED BY <3>1, <1>2, <1>3
  <2> QED BY <2>1
<1>6. k = d BY <1>4, <1>5
<1>7. x = y BY <1>6 DEF x, y
<1> QED BY <1>6, <1>7, <1>1, <1>0

LEMMA DivUnique ==
  ASSUME NEW a \in Nat \ {0}, NEW k \in Nat, NEW r \in 0..(a - 1)
  PROVE  (k * a + r) \div a = k /\ (k * a + r) % a = r
<1> DEFINE m == k * a + r
<1>0. m \in Nat OBVIOUS
<1>1. m = (m \div a) * a + (m % a) /\ m % a \in 0..(a - 1) /\ m \div a \in Nat BY <1>0, DivMod
<1> QED BY <1>1, Unique

THEOREM RoundUpFacts ==
  ASSUME NEW n \in Nat, NEW a \in Nat \ {0}
  PROVE  /\ RoundUp(n, a) \in Nat
         /\ n <= RoundUp(n, a)
         /\ RoundUp(n, a) < n + a
         /\ RoundUp(n, a) % a = 0
<1> DEFINE m == n + a - 1
<1>1. m \in Nat OBVIOUS
<1>2. m = (m \div a) * a + (m % a) /\ m % a \in 0..(a - 1) /\ m \div a \in Nat BY <1>1, DivMod
<1>3. RoundUp(n, a) = m - (m % a) BY <1>2 DEF RoundUp
<1>4. RoundUp(n, a) % a = 0
  <2>1. (((m \div a) * a) + 0) % a = 0 BY <1>2, DivUnique
  <2> QED BY <1>2, <2>1 DEF RoundUp
<1> QED BY <1>2, <1>3, <1>4

THEOREM FixedIffAligned ==
  ASSUME NEW n \in Nat, NEW a \in Nat \ {0}
  PROVE  RoundUp(n, a) = n <=> n % a = 0
<1>1. RoundUp(n, a) % a = 0 /\ n <= RoundUp(n, a) /\ RoundUp(n, a) < n + a /\ RoundUp(n, a) \in Nat BY RoundUpFacts
<1>2. ASSUME RoundUp(n, a) = n PROVE n % a = 0 BY <1>1, <1>2
<1>3. ASSUME n % a = 0 PROVE RoundUp(n, a) = n
  <2>1. n = (n \div a) * a + (n % a) /\ n \div a \in Nat BY DivMod
  <2>2. n = (n \div a) * a BY <2>1, <1>3
  <2> DEFINE q == n \div a
  <2>3. n + a - 1 = q * a + (a - 1) BY <2>2
  <2>4. (q * a + (a - 1)) \div a = q BY <2>1, DivUnique
  <2>5. (n + a - 1) \div a = q BY <2>3, <2>4
  <2> QED BY <2>5, <2>2 DEF RoundUp
<1> QED BY <1>2, <1>3

THEOREM PaddedPlace ==
  ASSUME NEW cur \in Nat, NEW addr \in Nat, NEW a \in Nat \ {0}, cur <= addr, addr % a = 0
  PROVE  RoundUp(RoundUp(cur, 1) + (addr - cur), a) = addr
<1>1. cur % 1 = 0 OBVIOUS
<1>2. RoundUp(cur, 1) = cur BY <1>1, FixedIffAligned
<1>3. cur + (addr - cur) = addr OBVIOUS
<1> QED BY <1>2, <1>3, FixedIffAligned

(* vftable structs (C04): n pointer-sized slots under repr(C).  If slot i sits at i*p, the next one is placed at (i+1)*p; *)
(* slot 0 sits at 0.  By induction on i every slot i sits at i times the pointer width, for tables of ANY length.         *)
THEOREM SlotBase == ASSUME NEW p \in Nat \ {0} PROVE RoundUp(0, p) = 0
<1>1. 0 % p = 0 OBVIOUS
<1> QED BY <1>1, FixedIffAligned

THEOREM SlotStep ==
  ASSUME NEW p \in Nat \ {0}, NEW i \in Nat
  PROVE  RoundUp(i * p + p, p) = (i + 1) * p
<1> DEFINE x == i * p
<1> DEFINE y == (i + 1) * p
<1>0. x \in Nat /\ y \in Nat OBVIOUS
<1>1. y = x + p OBVIOUS
<1>2. (y + 0) % p = 0 BY DivUnique
<1>3. y % p = 0 BY <1>0, <1>2
<1> HIDE DEF x, y
<1>4. RoundUp(y, p) = y BY <1>0, <1>3, FixedIffAligned
<1> QED BY <1>1, <1>4 DEF x, y

LEMMA MulNat == ASSUME NEW x \in Nat, NEW y \in Nat PROVE x * y \in Nat
  OBVIOUS

(* arrays: when the element size s is a multiple of the element alignment a, element j (at j*s) is aligned as well *)
THEOREM ArrayStride ==
  ASSUME NEW a \in Nat \ {0}, NEW s \in Nat, s % a = 0, NEW j \in Nat
  PROVE  (j * s) % a = 0
<1> DEFINE q == s \div a
<1>1. s = q * a + (s % a) /\ q \in Nat BY DivMod
<1>2. s = q * a BY <1>1
<1> DEFINE k == j * q
<1>3. k \in Nat
  <2>1. q \in Nat BY <1>1
  <2> HIDE DEF q
  <2> QED BY <2>1, MulNat
<1>4. j * s = k * a
  <2>1. j * (q * a) = (j * q) * a BY <1>1
  <2> QED BY <2>1, <1>2
<1>5. (k * a + 0) % a = 0 BY <1>3, DivUnique
<1> QED BY <1>4, <1>5, <1>3
=============================================================================
