SPECIFICATION MCSpec
CONSTANTS
  SpuriousPass = FALSE
  AllSchedules = TRUE
  PermuteModules = TRUE
  N = 3
  Kinds = {"val", "arr", "ptr", "base", "vptr"}
  VftTypes = {1, 2, 3}
  FnKinds = {}
  FnOwners = {}
  Twins = {"none"}
  TwoModules = TRUE
  Ptrs = {8}
INVARIANTS Inv_Passes Replay
CHECK_DEADLOCK FALSE
