SPECIFICATION MCSpec
CONSTANTS
  SpuriousPass = FALSE
  AllSchedules = TRUE
  PermuteModules = FALSE
  MaxFields = 3
  Addrs <- QAddrs
  Sizes <- T1Sizes
  Aligns <- T1Aligns
  Palette <- T1Palette
  Ptrs = {4, 8}
  WithVft = {FALSE, TRUE}
  WithPacked = {FALSE}
  Names = {"f"}
INVARIANTS Inv_RustDefined Replay
CHECK_DEADLOCK FALSE
VIEW View
