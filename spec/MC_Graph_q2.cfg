SPECIFICATION MCSpec
CONSTANTS
  SpuriousPass = FALSE
  AllSchedules = TRUE
  PermuteModules = TRUE
  N = 3
  Kinds = {"val", "ptr"}
  VftTypes = {2}
  FnKinds = {}
  FnOwners = {}
  TwoModules = TRUE
  Ptrs = {4}
INVARIANTS Inv_Passes Replay
CHECK_DEADLOCK FALSE
