SPECIFICATION MCSpec
CONSTANTS
  PermuteModules = TRUE
  N = 3
  Kinds = {"val"}
  VftTypes = {2}
  FnKinds = {"ret", "vparam"}
  FnOwners = {3}
  TwoModules = TRUE
  Ptrs = {4}
INVARIANTS Inv_Passes Replay
CHECK_DEADLOCK FALSE
