SPECIFICATION MCSpec
CONSTANTS
  SpuriousPass = FALSE
  AllSchedules = FALSE
  PermuteModules = FALSE
  Ptrs = {4, 8}
  DocSeqs <- QDocSeqs
INVARIANTS Replay
CHECK_DEADLOCK FALSE
VIEW View
