----------------------------- MODULE MC_Bounds -----------------------------
(***************************************************************************)
(* C12: boundary integers in every numeric position, unusual identifiers,  *)
(* and API-call sequences.  This module is a generator: the values are     *)
(* symbolic integers (far outside TLC's 32 bit), so the Pyxis machine is   *)
(* not stepped on them; the property it drives is totality itself - every  *)
(* input must come back as Ok or Err.  (Totality and termination of the    *)
(* machine on ordinary inputs are checked on MC_Graph: Termination,        *)
(* Inv_Passes, deadlock freedom.)                                          *)
(***************************************************************************)
EXTENDS Base, Json

CONSTANTS Positions, Values, Idents, Sequences

VARIABLES input, tag
vars == <<input, tag>>

BVals ==
  {Num("0", 0 - 1), Num("0", 0), Num("0", 1), Num("0", 3), Num("i32max", 1), Num("u32max", 1),
   Num("p60", 0), Num("p61", 0), Num("p62", 1), Num("i64max", 0), Num("i64max", 1),
   Num("i64min", 0), Num("i64min", 0 - 1), Num("u64max", 0), Num("u64max", 1)}

AllPositions ==
  {"field_addr", "type_size", "type_align", "singleton", "arr_len", "unk_len", "nested_arr_len", "vft_index", "vft_size",
   "enum_val", "enum_singleton", "ext_size", "ext_align", "eval_addr", "fn_addr", "ptr_arr_len", "eval_arr_len",
   "empty_align", "empty_size"}

QSeqs == {<<1, 1>>, <<1, 1, 1>>}

V(pos, here, v, dflt) == IF pos = here THEN v ELSE dflt

RECURSIVE PtrN(_, _)
PtrN(n, t) == IF n = 0 THEN t ELSE TMPtr(PtrN(n - 1, t))
RECURSIVE ArrN(_, _)
ArrN(n, t) == IF n = 0 THEN t ELSE TArr(ArrN(n - 1, t), 1)

MkInput(ptr, pos, v, tname, fname) ==
  LET T == [TypeDef(tname, "pub",
              <<Field(fname, "pub", <<>>, TNm("u32"), V(pos, "field_addr", v, None), FALSE),
                Field("arr", "pub", <<>>, TArr(TNm("u32"), V(pos, "arr_len", v, 2)), None, FALSE),
                Field("gap", "pub", <<>>, TUnk(V(pos, "unk_len", v, 4)), None, FALSE),
                Field("nest", "pub", <<>>, TArr(TArr(TNm("u16"), V(pos, "nested_arr_len", v, 2)), 2), None, FALSE),
                Field("parr", "pub", <<>>, TCPtr(TArr(TNm("u64"), V(pos, "ptr_arr_len", v, 2))), None, FALSE)>>)
              EXCEPT !.size = V(pos, "type_size", v, None), !.align = V(pos, "type_align", v, None),
                     !.singleton = V(pos, "singleton", v, None),
                     !.vft = [Vft(V(pos, "vft_size", v, None),
                                  <<Func("vf", "pub", <<>>, <<ArgM>>, TNone, None, V(pos, "vft_index", v, None), "")>>)
                                EXCEPT !.doc = <<>>]]
      E == [EnumDef("En", "pub", TNm("i64"), <<Variant("A", V(pos, "enum_val", v, NumNone), FALSE), Variant("B", NumNone, FALSE)>>)
              EXCEPT !.singleton = V(pos, "enum_singleton", v, None)]
      Em == [TypeDef("Em", "pub", <<>>) EXCEPT !.align = V(pos, "empty_align", v, None), !.size = V(pos, "empty_size", v, None)]
      m == [Module(<<"m">>, <<>>, <<T, E, Em>>)
              EXCEPT !.exts = <<ExtType("X", V(pos, "ext_size", v, 8), V(pos, "ext_align", v, 4))>>,
                     !.evals = <<ExtVal("gv", "pub", TArr(TNm("X"), V(pos, "eval_arr_len", v, 2)), V(pos, "eval_addr", v, 4096))>>,
                     !.impls = <<Impl(tname, <<Func("h", "pub", <<>>, <<ArgC>>, TNone, V(pos, "fn_addr", v, 4096), None, "")>>)>>]
  IN [ptr |-> ptr, mods |-> <<m>>]

Init ==
  \/ \E ptr \in {4, 8}, pos \in Positions, v \in Values :
        /\ input = MkInput(ptr, pos, v, "T", "a") /\ tag = <<"pos", pos>>
  \/ \E tn \in Idents, fn \in Idents :
        /\ input = MkInput(8, "none", Num("0", 0), tn, fn) /\ tag = <<"ident", tn>>
  \/ /\ input = [ptr |-> 8, mods |-> <<Module(<<"m">>, <<>>,
                      <<TypeDef("B", "pub", <<Field("x", "pub", <<>>, TNm("u64"), None, FALSE)>>),
                        TypeDef("D", "pub", <<Field("_", "pub", <<>>, TNm("B"), None, TRUE)>>)>>)>>]
     /\ tag = <<"shape", "unnamed-base">>
  \/ /\ input = [ptr |-> 8, mods |-> <<[Module(<<"m">>, <<>>,
                      <<TypeDef("D", "pub", <<Field("a", "pub", <<>>, TNm("X"), None, FALSE), Field("b", "pub", <<>>, TNm("X"), None, FALSE)>>)>>)
                      EXCEPT !.exts = <<ExtType("X", 4, 0)>>]>>]
     /\ tag = <<"shape", "extern-align-0">>
  \/ /\ input = [ptr |-> 8, mods |-> <<[Module(<<"m">>, <<>>,
                      <<TypeDef("D", "pub", <<Field("a", "pub", <<>>, TNm("X"), None, FALSE), Field("b", "pub", <<>>, TNm("Y"), None, FALSE),
                                              Field("c", "pub", <<>>, TNm("Z"), None, FALSE)>>)>>)
                      EXCEPT !.exts = <<ExtType("X", 0, Num("p62", 0)), ExtType("Y", 0, 3), ExtType("Z", 0, 5)>>]>>]
     /\ tag = <<"shape", "extern-align-lcm">>
  \/ /\ input = [ptr |-> 8, mods |-> <<[Module(<<"m">>, <<>>,
                      <<TypeDef("D", "pub", <<Field("a", "pub", <<>>, TNm("X"), None, FALSE), Field("b", "pub", <<>>, TNm("X"), None, FALSE)>>)>>)
                      EXCEPT !.exts = <<ExtType("X", 0, Num("p62", 0))>>]>>]
     /\ tag = <<"shape", "extern-align-twice">>
  \/ /\ input = [ptr |-> 8, mods |-> <<[Module(<<"m">>, <<>>,
                      <<TypeDef("B", "pub", <<Field("x", "pub", <<>>, TNm("u64"), None, FALSE)>>),
                        TypeDef("C", "pub", <<Field("y", "pub", <<>>, TNm("u64"), None, FALSE)>>),
                        TypeDef("D", "pub", <<Field("a", "pub", <<>>, TNm("B"), None, TRUE), Field("b", "pub", <<>>, TNm("C"), None, TRUE)>>)>>)
                      EXCEPT !.impls = <<Impl("B", <<Func("r#type", "pub", <<>>, <<ArgC>>, TNone, 327680, None, "")>>),
                                         Impl("C", <<Func("r#type", "pub", <<>>, <<ArgC>>, TNone, 393216, None, "")>>)>>]>>]
     /\ tag = <<"shape", "raw-ident-rename">>
  (* the same base twice, reached through fields with raw-identifier names: the backend builds marker names from the field paths *)
  \/ /\ input = [ptr |-> 8, mods |-> <<Module(<<"m">>, <<>>,
                      <<TypeDef("B", "pub", <<Field("x", "pub", <<>>, TNm("u64"), None, FALSE)>>),
                        TypeDef("r#struct", "pub", <<Field("r#type", "pub", <<>>, TNm("B"), None, TRUE), Field("r#fn", "pub", <<>>, TNm("B"), None, TRUE)>>),
                        TypeDef("DD", "pub", <<Field("r#in", "pub", <<>>, TNm("r#struct"), None, TRUE), Field("other", "pub", <<>>, TNm("B"), None, TRUE)>>)>>)>>]
     /\ tag = <<"shape", "raw-ident-conflict">>
  (* types nested deeply: pointer to pointer to ..., array of array of ... *)
  \/ \E n \in {16, 48, 100} : \E kind \in {"ptr", "arr"} :
        /\ input = [ptr |-> 8, mods |-> <<Module(<<"m">>, <<>>,
                      <<TypeDef("Deep", "pub", <<Field("p", "pub", <<>>, IF kind = "ptr" THEN PtrN(n, TNm("u8")) ELSE ArrN(n, TNm("u64")), None, FALSE)>>)>>)>>]
        /\ tag = <<"shape", "deep-" \o kind \o "-" \o ToString(n)>>
  (* attributes with an empty or an over-long argument list, on every kind of item that takes attributes *)
  \/ \E x \in {"calling_convention()", "address()", "index()", "size()", "align()", "singleton()", "base()", "doc()",
                 "address(1, 2)", "size(8, 8)", "calling_convention(\"cdecl\", \"cdecl\")", "index(\"0\")", "address(\"x\")"} :
        /\ input = [ptr |-> 8, mods |-> <<[Module(<<"m">>, <<>>,
                       <<[TypeDef("T", "pub", <<Field("a", "pub", <<>>, TNm("u32"), None, FALSE) @@ [xattrs |-> <<x>>],
                                              Field("b", "pub", <<>>, TNm("u32"), None, FALSE)>>)
                            EXCEPT !.vft = Vft(None, <<[Func("vf", "pub", <<>>, <<ArgM>>, TNone, None, None, "") EXCEPT !.xattrs = <<x>>]>>)]
                          @@ [xattrs |-> <<x>>],
                         EnumDef("En", "pub", TNm("u32"), <<Variant("A", NumNone, FALSE)>>) @@ [xattrs |-> <<x>>]>>)
                       EXCEPT !.impls = <<Impl("T", <<[Func("h", "pub", <<>>, <<ArgC>>, TNone, 4096, None, "") EXCEPT !.xattrs = <<x>>]>>)>>]>>]
        /\ tag = <<"xattr", x>>
  \/ \E sq \in Sequences :
        /\ input = [MkInput(8, "none", Num("0", 0), "T", "a") EXCEPT !.mods = [i \in DOMAIN sq |-> @[1]]]
        /\ tag = <<"seq", "dup">>

Next == UNCHANGED vars
Spec == Init /\ [][Next]_vars

Replay == PrintT(<<"REPLAY", ToJson([group |-> "bounds", input |-> input, order |-> <<>>, sched |-> <<>>, tag |-> tag,
                                     accepted |-> FALSE, err |-> "", pviol |-> {}, oracle |-> [kf |-> <<>>]])>>)
=============================================================================
