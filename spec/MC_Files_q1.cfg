SPECIFICATION MCSpec
CONSTANTS
  SpuriousPass = FALSE
  AllSchedules = FALSE
  PermuteModules = FALSE
  Trees = {"flat", "nested", "three", "empty", "dotted", "samename"}
  BackSets = {"none", "pro", "epi", "both", "two", "mixed", "split", "badpro", "comment", "twopro", "other"}
  Collisions = {"none", "duptype", "typeenum", "externdef", "uservft", "uservft1"}
  Ptrs = {4, 8}
  InDirs = {"plain", "dot", "trailing", "script"}
INVARIANTS Replay
CHECK_DEADLOCK FALSE
VIEW View
