------------------------------- MODULE Parse -------------------------------
(***************************************************************************)
(* The pyxis parser (src/parser/mod.rs) as an explicit specification of    *)
(* the *language*: a deterministic recursive-descent recogniser over token *)
(* sequences that also builds the abstract module (grammar::Module).       *)
(*                                                                         *)
(*   ParseToks(ts)  =  [ok |-> TRUE,  m |-> <abstract module>]             *)
(*                  |  [ok |-> FALSE, at |-> index of the offending token] *)
(*                                                                         *)
(* One operator per `impl Parse`, the order of the alternatives and of the *)
(* checks inside a production as in the code, because it is observable:    *)
(* which token a rejection is reported at.  The error position follows     *)
(* syn's rule: the token the parser could not continue with; at the end of *)
(* a delimited group the closing delimiter; at the end of the text `EOF`   *)
(* (index Len(ts) + 1).  Tokens left over inside the brackets of an array  *)
(* type are not noticed where they occur: syn records the first such group *)
(* that is closed and reports it only when the parse otherwise succeeds    *)
(* (`lo`, "left over").                                                    *)
(*                                                                         *)
(* Tokens are what proc_macro2 produces; `::` is two `:` of which the      *)
(* first is glued to its successor (":j").  Delimiters must balance over   *)
(* the whole text (otherwise the lexer rejects it, `at` = 0).              *)
(***************************************************************************)
EXTENDS Base

(* ------------------------------- tokens -------------------------------- *)
Tk(k, v, n) == [k |-> k, v |-> v, n |-> n]
Pu(v) == Tk("pu", v, NumNone)     \* punctuation and delimiters, `_`
Kw(v) == Tk("kw", v, NumNone)     \* reserved words of Rust: never an identifier for syn
Id(v) == Tk("id", v, NumNone)     \* identifiers, raw identifiers, pyxis' own contextual keywords
In(n) == Tk("int", "", n)         \* integer literal with its sign (symbolic integer)
St(v) == Tk("str", v, NumNone)    \* string literal (value)

Opens == {"(", "[", "{"}
Closes == {")", "]", "}"}
CloseOf(o) == CASE o = "(" -> ")" [] o = "[" -> "]" [] OTHER -> "}"

(* abstract syntax: the record shapes of MC_Syntax.tla (what the harness   *)
(* converts to grammar::Module)                                            *)
EInt(n) == [k |-> "int", v |-> n]
EStr(s) == [k |-> "str", v |-> s]
EId(s)  == [k |-> "ident", v |-> s]
NoExpr  == EId("")
AId(n)       == [k |-> "ident", name |-> n, args |-> <<>>, value |-> NoExpr]
AFn(n, args) == [k |-> "fn", name |-> n, args |-> args, value |-> NoExpr]
AAs(n, v)    == [k |-> "assign", name |-> n, args |-> <<>>, value |-> v]
GArg(name, ty) == [k |-> "named", name |-> name, ty |-> ty]
GSelfC == [k |-> "cself", name |-> "", ty |-> TNone]
GSelfM == [k |-> "mself", name |-> "", ty |-> TNone]
GFunc(vis, name, attrs, args, ret) == [vis |-> vis, name |-> name, attrs |-> attrs, args |-> args, ret |-> ret]
GField(vis, name, ty, attrs) == [k |-> "field", vis |-> vis, name |-> name, ty |-> ty, attrs |-> attrs, funcs |-> <<>>]
GVft(attrs, funcs) == [k |-> "vftable", vis |-> "priv", name |-> "", ty |-> TNone, attrs |-> attrs, funcs |-> funcs]
GVar(name, has, expr, attrs) == [name |-> name, expr |-> expr, has |-> has, attrs |-> attrs]
GType(vis, name, attrs, stmts) ==
  [vis |-> vis, name |-> name, k |-> "type", attrs |-> attrs, stmts |-> stmts, base |-> TNone, vars |-> <<>>]
GEnum(vis, name, attrs, base, vars) ==
  [vis |-> vis, name |-> name, k |-> "enum", attrs |-> attrs, stmts |-> <<>>, base |-> base, vars |-> vars]
GBack(name, pro, epi) == [name |-> name, pro |-> pro, epi |-> epi]
GMod(attrs, uses, exts, evals, defs, impls, backs) ==
  [attrs |-> attrs, uses |-> uses, exts |-> exts, evals |-> evals, defs |-> defs, impls |-> impls, backs |-> backs]
EmptyMod == GMod(<<>>, <<>>, <<>>, <<>>, <<>>, <<>>, <<>>)

(* ---------------------- delimiters (the lexer) ------------------------- *)
(* Matching(ts) = [ok, m] with m[i] = index of the delimiter closing the   *)
(* one opened at i (0 elsewhere)                                           *)
RECURSIVE MatchScan(_, _, _, _)
MatchScan(ts, i, stack, m) ==
  IF i > Len(ts) THEN [ok |-> stack = <<>>, m |-> m]
  ELSE IF ts[i].k = "pu" /\ ts[i].v \in Opens THEN MatchScan(ts, i + 1, <<i>> \o stack, m)
  ELSE IF ts[i].k = "pu" /\ ts[i].v \in Closes THEN
         IF stack = <<>> \/ CloseOf(ts[stack[1]].v) # ts[i].v THEN [ok |-> FALSE, m |-> m]
         ELSE MatchScan(ts, i + 1, Tail(stack), [m EXCEPT ![stack[1]] = i])
  ELSE MatchScan(ts, i + 1, stack, m)
Matching(ts) == MatchScan(ts, 1, <<>>, [j \in 1..Len(ts) |-> 0])

(* ------------------------------ peeking -------------------------------- *)
(* every operator below works inside a group that ends (exclusively) at e  *)
IsPu(ts, i, e, v) == i < e /\ ts[i].k = "pu" /\ ts[i].v = v
IsColon(ts, i, e) == i < e /\ ts[i].k = "pu" /\ ts[i].v \in {":", ":j"}       \* peek(Token![:])
IsColon2(ts, i, e) == i + 1 < e /\ ts[i] = Pu(":j") /\ IsColon(ts, i + 1, e)    \* peek(Token![::])
IsKw(ts, i, e, v) == i < e /\ ts[i].k = "kw" /\ ts[i].v = v
IsId(ts, i, e) == i < e /\ ts[i].k = "id"                                       \* peek(syn::Ident)
IsIdV(ts, i, e, v) == IsId(ts, i, e) /\ ts[i].v = v                             \* peek(kw::<custom keyword>)
IsInt(ts, i, e) == i < e /\ ts[i].k = "int"
IsStr(ts, i, e) == i < e /\ ts[i].k = "str"

FitsUsize(n) == NumLE(NumInt(0), n) /\ NumLE(n, Num("u64max", 0))
FitsIsizeLit(n) == NumLE(Num("i64min", 0), n) /\ NumLE(n, Num("i64max", 0))

(* results; lo = <<index of the closing bracket, index of the first left-over token>> or NoLo *)
NoLo == <<0, 0>>
Ok(i, v, lo) == [ok |-> TRUE, i |-> i, v |-> v, lo |-> lo]
Er(i, e) == [ok |-> FALSE, i |-> IF i < e THEN i ELSE e, v |-> <<>>, lo |-> NoLo]
(* the group closed first is the one reported *)
Lo(a, b) == IF a = NoLo THEN b ELSE IF b = NoLo THEN a ELSE IF a[1] <= b[1] THEN a ELSE b

(* ---------------------------- identifiers ------------------------------ *)
(* impl Parse for Ident: `_` or an identifier                              *)
P_Ident(ts, i, e) ==
  IF IsPu(ts, i, e, "_") THEN Ok(i + 1, "_", NoLo)
  ELSE IF IsId(ts, i, e) THEN Ok(i + 1, ts[i].v, NoLo)
  ELSE Er(i, e)

(* parse_type_ident: an identifier, then any run of `<`, identifiers and   *)
(* `>` glued onto the name ("dodgy hack to support generics")              *)
RECURSIVE TypeIdentRest(_, _, _, _)
TypeIdentRest(ts, i, e, name) ==
  IF IsPu(ts, i, e, "<") THEN TypeIdentRest(ts, i + 1, e, name \o "<")
  ELSE IF IsId(ts, i, e) THEN TypeIdentRest(ts, i + 1, e, name \o ts[i].v)
  ELSE IF IsPu(ts, i, e, ">") THEN TypeIdentRest(ts, i + 1, e, name \o ">")
  ELSE Ok(i, name, NoLo)
P_TypeIdent(ts, i, e) == IF IsId(ts, i, e) THEN TypeIdentRest(ts, i + 1, e, ts[i].v) ELSE Er(i, e)

(* impl Parse for ItemPath: any run of type identifiers and `::`           *)
RECURSIVE P_Path(_, _, _, _)
P_Path(ts, i, e, segs) ==
  IF IsId(ts, i, e) THEN LET r == P_TypeIdent(ts, i, e) IN P_Path(ts, r.i, e, Append(segs, r.v))
  ELSE IF IsColon2(ts, i, e) THEN P_Path(ts, i + 2, e, segs)
  ELSE IF IsKw(ts, i, e, "super") THEN Er(i, e)
  ELSE Ok(i, segs, NoLo)

(* -------------------------------- types -------------------------------- *)
RECURSIVE P_Type(_, _, _, _)
P_Type(ts, m, i, e) ==
  IF IsIdV(ts, i, e, "unknown") THEN
       IF ~IsPu(ts, i + 1, e, "<") THEN Er(i + 1, e)
       ELSE IF ~IsInt(ts, i + 2, e) THEN Er(i + 2, e)
       ELSE IF ~FitsUsize(ts[i + 2].n) THEN Er(i + 2, e)
       ELSE IF ~IsPu(ts, i + 3, e, ">") THEN Er(i + 3, e)
       ELSE Ok(i + 4, TUnk(ts[i + 2].n), NoLo)
  ELSE IF IsId(ts, i, e) THEN LET r == P_TypeIdent(ts, i, e) IN Ok(r.i, TNm(r.v), NoLo)
  ELSE IF IsPu(ts, i, e, "*") THEN
       IF IsKw(ts, i + 1, e, "const")
       THEN LET r == P_Type(ts, m, i + 2, e) IN IF r.ok THEN Ok(r.i, TCPtr(r.v), r.lo) ELSE r
       ELSE IF IsKw(ts, i + 1, e, "mut")
       THEN LET r == P_Type(ts, m, i + 2, e) IN IF r.ok THEN Ok(r.i, TMPtr(r.v), r.lo) ELSE r
       ELSE Er(i + 1, e)
  ELSE IF IsPu(ts, i, e, "[") THEN
       LET c == m[i]
           r == P_Type(ts, m, i + 1, c)
       IN IF ~r.ok THEN r
          ELSE IF ~IsPu(ts, r.i, c, ";") THEN Er(r.i, c)
          ELSE IF ~IsInt(ts, r.i + 1, c) THEN Er(r.i + 1, c)
          ELSE IF ~FitsUsize(ts[r.i + 1].n) THEN Er(r.i + 1, c)
          ELSE Ok(c + 1, TArr(r.v, ts[r.i + 1].n),
                  Lo(r.lo, IF r.i + 2 < c THEN <<c, r.i + 2>> ELSE NoLo))
  ELSE Er(i, e)

(* ----------------------------- expressions ----------------------------- *)
P_Expr(ts, i, e) ==
  IF IsId(ts, i, e) THEN Ok(i + 1, EId(ts[i].v), NoLo)
  ELSE IF IsInt(ts, i, e) THEN IF FitsIsizeLit(ts[i].n) THEN Ok(i + 1, EInt(ts[i].n), NoLo) ELSE Er(i, e)
  ELSE IF IsStr(ts, i, e) THEN Ok(i + 1, EStr(ts[i].v), NoLo)
  ELSE Er(i, e)

(* ---- parse_terminated for the six kinds of element (syn::Punctuated) --- *)
RECURSIVE Elem(_, _, _, _, _), Terminated(_, _, _, _, _, _, _, _), P_Attrs(_, _, _, _, _, _),
          P_AttrBodies(_, _, _, _, _, _, _)

(* zero or more elements separated by `sep`, a trailing one allowed; the   *)
(* whole group [i, e) must be consumed                                     *)
Terminated(kind, sep, ts, m, i, e, acc, lo) ==
  IF i >= e THEN Ok(e, acc, lo)
  ELSE LET r == Elem(kind, ts, m, i, e)
       IN IF ~r.ok THEN r
          ELSE IF r.i >= e THEN Ok(e, Append(acc, r.v), Lo(lo, r.lo))
          ELSE IF ~IsPu(ts, r.i, e, sep) THEN Er(r.i, e)
          ELSE Terminated(kind, sep, ts, m, r.i + 1, e, Append(acc, r.v), Lo(lo, r.lo))

(* Attribute::parse_many: `#[ part, ... ]`*  (inner: `#![ ... ]`* )        *)
P_AttrBodies(inner, ts, m, i, e, acc, lo) ==
  LET b == IF inner THEN i + 2 ELSE i + 1     \* where the bracket must be
      more == IF inner THEN IsPu(ts, i, e, "#") /\ IsPu(ts, i + 1, e, "!") ELSE IsPu(ts, i, e, "#")
  IN IF ~more THEN Ok(i, acc, lo)
     ELSE IF ~IsPu(ts, b, e, "[") THEN Er(b, e)
     ELSE LET c == m[b]
              r == Terminated("attr", ",", ts, m, b + 1, c, <<>>, NoLo)
          IN IF ~r.ok THEN r ELSE P_AttrBodies(inner, ts, m, c + 1, e, acc \o r.v, Lo(lo, r.lo))
P_Attrs(inner, ts, m, i, e, dummy) == P_AttrBodies(inner, ts, m, i, e, <<>>, NoLo)

Vis(ts, i, e) == IF IsKw(ts, i, e, "pub") THEN [i |-> i + 1, v |-> "pub"] ELSE [i |-> i, v |-> "priv"]

(* impl Parse for Function *)
P_Function(ts, m, i, e) ==
  LET a == P_Attrs(FALSE, ts, m, i, e, 0)
  IN IF ~a.ok THEN a ELSE
  LET v == Vis(ts, a.i, e)
  IN IF ~IsKw(ts, v.i, e, "fn") THEN Er(v.i, e) ELSE
  LET n == P_Ident(ts, v.i + 1, e)
  IN IF ~n.ok THEN n
     ELSE IF ~IsPu(ts, n.i, e, "(") THEN Er(n.i, e) ELSE
  LET c == m[n.i]
      args == Terminated("arg", ",", ts, m, n.i + 1, c, <<>>, NoLo)
  IN IF ~args.ok THEN args
     ELSE IF IsPu(ts, c + 1, e, "->")
          THEN LET r == P_Type(ts, m, c + 2, e)
               IN IF ~r.ok THEN r
                  ELSE Ok(r.i, GFunc(v.v, n.v, a.v, args.v, r.v), Lo(Lo(a.lo, args.lo), r.lo))
          ELSE Ok(c + 1, GFunc(v.v, n.v, a.v, args.v, TNone), Lo(a.lo, args.lo))

Elem(kind, ts, m, i, e) ==
  CASE kind = "expr" -> P_Expr(ts, i, e)
    [] kind = "attr" ->
         LET n == P_Ident(ts, i, e)
         IN IF ~n.ok THEN n
            ELSE IF IsPu(ts, n.i, e, "(")
                 THEN LET c == m[n.i]
                          r == Terminated("expr", ",", ts, m, n.i + 1, c, <<>>, NoLo)
                      IN IF ~r.ok THEN r ELSE Ok(c + 1, AFn(n.v, r.v), r.lo)
            ELSE IF IsPu(ts, n.i, e, "=")
                 THEN LET r == P_Expr(ts, n.i + 1, e) IN IF ~r.ok THEN r ELSE Ok(r.i, AAs(n.v, r.v), NoLo)
            ELSE Ok(n.i, AId(n.v), NoLo)
    [] kind = "arg" ->
         IF IsPu(ts, i, e, "&") THEN
              IF IsKw(ts, i + 1, e, "mut")
              THEN IF IsKw(ts, i + 2, e, "self") THEN Ok(i + 3, GSelfM, NoLo) ELSE Er(i + 2, e)
              ELSE IF IsKw(ts, i + 1, e, "self") THEN Ok(i + 2, GSelfC, NoLo)
              ELSE Er(i + 1, e)
         ELSE IF IsId(ts, i, e) THEN
              IF ~IsColon(ts, i + 1, e) THEN Er(i + 1, e)
              ELSE LET r == P_Type(ts, m, i + 2, e) IN IF ~r.ok THEN r ELSE Ok(r.i, GArg(ts[i].v, r.v), r.lo)
         ELSE Er(i, e)
    [] kind = "func" -> P_Function(ts, m, i, e)
    [] kind = "tstmt" ->      \* TypeStatement = attributes + TypeField
         LET a == P_Attrs(FALSE, ts, m, i, e, 0)
         IN IF ~a.ok THEN a
            ELSE IF IsIdV(ts, a.i, e, "vftable") THEN
                 IF ~IsPu(ts, a.i + 1, e, "{") THEN Er(a.i + 1, e)
                 ELSE LET c == m[a.i + 1]
                          fs == Terminated("func", ";", ts, m, a.i + 2, c, <<>>, NoLo)
                      IN IF ~fs.ok THEN fs ELSE Ok(c + 1, GVft(a.v, fs.v), Lo(a.lo, fs.lo))
            ELSE LET v == Vis(ts, a.i, e)
                     n == P_Ident(ts, v.i, e)
                 IN IF ~n.ok THEN n
                    ELSE IF ~IsColon(ts, n.i, e) THEN Er(n.i, e)
                    ELSE LET r == P_Type(ts, m, n.i + 1, e)
                         IN IF ~r.ok THEN r ELSE Ok(r.i, GField(v.v, n.v, r.v, a.v), Lo(a.lo, r.lo))
    [] OTHER ->               \* "estmt": EnumStatement
         LET a == P_Attrs(FALSE, ts, m, i, e, 0)
         IN IF ~a.ok THEN a
            ELSE LET n == P_Ident(ts, a.i, e)
                 IN IF ~n.ok THEN n
                    ELSE IF IsPu(ts, n.i, e, "=")
                         THEN LET r == P_Expr(ts, n.i + 1, e)
                              IN IF ~r.ok THEN r ELSE Ok(r.i, GVar(n.v, TRUE, r.v, a.v), a.lo)
                    ELSE Ok(n.i, GVar(n.v, FALSE, NoExpr, a.v), a.lo)

(* ------------------------------ backends ------------------------------- *)
(* `prologue "…";` / `epilogue "…";` at i?  [hit, ok, i, v]                *)
Block(word, ts, i, e) ==
  IF ~IsIdV(ts, i, e, word) THEN [hit |-> FALSE, ok |-> TRUE, i |-> i, v |-> ""]
  ELSE IF ~IsStr(ts, i + 1, e) THEN [hit |-> TRUE, ok |-> FALSE, i |-> (IF i + 1 < e THEN i + 1 ELSE e), v |-> ""]
  ELSE IF ~IsPu(ts, i + 2, e, ";") THEN [hit |-> TRUE, ok |-> FALSE, i |-> (IF i + 2 < e THEN i + 2 ELSE e), v |-> ""]
  ELSE [hit |-> TRUE, ok |-> TRUE, i |-> i + 3, v |-> ts[i + 1].v]

(* a block may state several prologues / epilogues: all are kept, in source order (the code trims each and joins them *)
(* with a line break; the abstract backend keeps the sequence of texts as written, <<>> when there is none)            *)
RECURSIVE BackBody(_, _, _, _, _)
BackBody(ts, i, c, pro, epi) ==
  IF i >= c THEN Ok(c + 1, [pro |-> pro, epi |-> epi], NoLo)
  ELSE LET p == Block("prologue", ts, i, c)
           q == Block("epilogue", ts, i, c)
       IN IF p.hit THEN (IF p.ok THEN BackBody(ts, p.i, c, Append(pro, p.v), epi) ELSE Er(p.i, c))
          ELSE IF q.hit THEN (IF q.ok THEN BackBody(ts, q.i, c, pro, Append(epi, q.v)) ELSE Er(q.i, c))
          ELSE Er(i, c)

P_Backend(ts, m, i, e) ==     \* ts[i] = `backend`
  LET n == P_Ident(ts, i + 1, e)
  IN IF ~n.ok THEN n ELSE
  LET p == Block("prologue", ts, n.i, e)
      q == Block("epilogue", ts, n.i, e)
  IN IF p.hit THEN (IF p.ok THEN Ok(p.i, GBack(n.v, <<p.v>>, <<>>), NoLo) ELSE Er(p.i, e))
     ELSE IF q.hit THEN (IF q.ok THEN Ok(q.i, GBack(n.v, <<>>, <<q.v>>), NoLo) ELSE Er(q.i, e))
     ELSE IF ~IsPu(ts, n.i, e, "{") THEN Er(n.i, e)
     ELSE LET b == BackBody(ts, n.i + 1, m[n.i], <<>>, <<>>)
          IN IF ~b.ok THEN b ELSE Ok(b.i, GBack(n.v, b.v.pro, b.v.epi), NoLo)

(* ------------------------- items and the module ------------------------ *)
(* parse_item_definition after the visibility; i at `type` / `enum`        *)
P_ItemDef(ts, m, i, e, vis, attrs) ==
  LET n == P_Ident(ts, i + 1, e)
  IN IF ~n.ok THEN n
     ELSE IF IsKw(ts, i, e, "type") THEN
          IF IsPu(ts, n.i, e, ";") THEN Ok(n.i + 1, GType(vis, n.v, attrs, <<>>), NoLo)
          ELSE IF ~IsPu(ts, n.i, e, "{") THEN Er(n.i, e)
          ELSE LET c == m[n.i]
                   r == Terminated("tstmt", ",", ts, m, n.i + 1, c, <<>>, NoLo)
               IN IF ~r.ok THEN r ELSE Ok(c + 1, GType(vis, n.v, attrs, r.v), r.lo)
     ELSE                     \* enum
          IF ~IsColon(ts, n.i, e) THEN Er(n.i, e)
          ELSE LET b == P_Type(ts, m, n.i + 1, e)
               IN IF ~b.ok THEN b
                  ELSE IF ~IsPu(ts, b.i, e, "{") THEN Er(b.i, e)
                  ELSE LET c == m[b.i]
                           r == Terminated("estmt", ",", ts, m, b.i + 1, c, <<>>, NoLo)
                       IN IF ~r.ok THEN r ELSE Ok(c + 1, GEnum(vis, n.v, attrs, b.v, r.v), Lo(b.lo, r.lo))

RECURSIVE P_Items(_, _, _, _, _, _)
P_Items(ts, m, i, e, md, lo) ==
  IF i >= e THEN Ok(e, md, lo)
  ELSE IF IsKw(ts, i, e, "use") THEN
       LET p == P_Path(ts, i + 1, e, <<>>)
       IN IF ~p.ok THEN p
          ELSE IF ~IsPu(ts, p.i, e, ";") THEN Er(p.i, e)
          ELSE P_Items(ts, m, p.i + 1, e, [md EXCEPT !.uses = Append(@, p.v)], lo)
  ELSE IF IsIdV(ts, i, e, "backend") THEN
       LET b == P_Backend(ts, m, i, e)
       IN IF ~b.ok THEN b ELSE P_Items(ts, m, b.i, e, [md EXCEPT !.backs = Append(@, b.v)], lo)
  ELSE
  LET a == P_Attrs(FALSE, ts, m, i, e, 0)
  IN IF ~a.ok THEN a
     ELSE IF IsKw(ts, a.i, e, "extern") /\ IsKw(ts, a.i + 1, e, "type") THEN
          LET n == P_TypeIdent(ts, a.i + 2, e)
          IN IF ~n.ok THEN n
             ELSE IF ~IsPu(ts, n.i, e, ";") THEN Er(n.i, e)
             ELSE P_Items(ts, m, n.i + 1, e,
                          [md EXCEPT !.exts = Append(@, [name |-> n.v, attrs |-> a.v])], Lo(lo, a.lo))
     ELSE IF IsKw(ts, a.i, e, "impl") THEN
          LET n == P_Ident(ts, a.i + 1, e)
          IN IF ~n.ok THEN n
             ELSE IF ~IsPu(ts, n.i, e, "{") THEN Er(n.i, e)
             ELSE LET c == m[n.i]
                      fs == Terminated("func", ";", ts, m, n.i + 1, c, <<>>, NoLo)
                  IN IF ~fs.ok THEN fs
                     ELSE P_Items(ts, m, c + 1, e,
                                  [md EXCEPT !.impls = Append(@, [name |-> n.v, attrs |-> a.v, funcs |-> fs.v])],
                                  Lo(lo, Lo(a.lo, fs.lo)))
     ELSE
     LET v == Vis(ts, a.i, e)
     IN IF IsKw(ts, v.i, e, "extern") THEN
          LET n == P_Ident(ts, v.i + 1, e)
          IN IF ~n.ok THEN n
             ELSE IF ~IsColon(ts, n.i, e) THEN Er(n.i, e)
             ELSE LET t == P_Type(ts, m, n.i + 1, e)
                  IN IF ~t.ok THEN t
                     ELSE IF ~IsPu(ts, t.i, e, ";") THEN Er(t.i, e)
                     ELSE P_Items(ts, m, t.i + 1, e,
                                  [md EXCEPT !.evals = Append(@, [vis |-> v.v, name |-> n.v, ty |-> t.v, attrs |-> a.v])],
                                  Lo(lo, Lo(a.lo, t.lo)))
        ELSE IF IsKw(ts, v.i, e, "type") \/ IsKw(ts, v.i, e, "enum") THEN
          LET d == P_ItemDef(ts, m, v.i, e, v.v, a.v)
          IN IF ~d.ok THEN d
             ELSE P_Items(ts, m, d.i, e, [md EXCEPT !.defs = Append(@, d.v)], Lo(lo, Lo(a.lo, d.lo)))
        ELSE Er(v.i, e)

(* parser::parse_str *)
ParseToks(ts) ==
  LET mt == Matching(ts)
      e == Len(ts) + 1
  IN IF ~mt.ok THEN [ok |-> FALSE, at |-> 0, m |-> EmptyMod]
     ELSE LET a == P_Attrs(TRUE, ts, mt.m, 1, e, 0)
          IN IF ~a.ok THEN [ok |-> FALSE, at |-> a.i, m |-> EmptyMod]
             ELSE LET r == P_Items(ts, mt.m, a.i, e, [EmptyMod EXCEPT !.attrs = a.v], a.lo)
                  IN IF ~r.ok THEN [ok |-> FALSE, at |-> r.i, m |-> EmptyMod]
                     ELSE IF r.lo # NoLo THEN [ok |-> FALSE, at |-> r.lo[2], m |-> EmptyMod]
                     ELSE [ok |-> TRUE, at |-> 0, m |-> r.v]

(* ------------------------------ printing ------------------------------- *)
(* Syntax-directed: every constructor yields the tokens *and* the abstract *)
(* node, [t |-> tokens, v |-> node].  (A name carrying the generics hack   *)
(* is given by its parts, since TLC cannot split a string.)                *)
G(t, v) == [t |-> t, v |-> v]
Cat(gs) == Flatten([i \in DOMAIN gs |-> gs[i].t])
Vals(gs) == [i \in DOMAIN gs |-> gs[i].v]
RECURSIVE Sep(_, _)
Sep(gs, sep) == IF gs = <<>> THEN <<>> ELSE IF Len(gs) = 1 THEN gs[1].t ELSE gs[1].t \o <<Pu(sep)>> \o Sep(Tail(gs), sep)

NameTok(p) == IF p \in {"<", ">"} THEN Pu(p) ELSE Id(p)
RECURSIVE ConcatStr(_)
ConcatStr(ps) == IF ps = <<>> THEN "" ELSE Head(ps) \o ConcatStr(Tail(ps))
X_Name(parts) == G([i \in DOMAIN parts |-> NameTok(parts[i])], ConcatStr(parts))
X_IdentTok(n) == IF n = "_" THEN Pu("_") ELSE Id(n)

X_Nm(parts) == LET n == X_Name(parts) IN G(n.t, TNm(n.v))
X_CPtr(x) == G(<<Pu("*"), Kw("const")>> \o x.t, TCPtr(x.v))
X_MPtr(x) == G(<<Pu("*"), Kw("mut")>> \o x.t, TMPtr(x.v))
X_Arr(x, n) == G(<<Pu("[")>> \o x.t \o <<Pu(";"), In(n), Pu("]")>>, TArr(x.v, n))
X_Unk(n) == G(<<Id("unknown"), Pu("<"), In(n), Pu(">")>>, TUnk(n))

X_EInt(n) == G(<<In(n)>>, EInt(n))
X_EStr(s) == G(<<St(s)>>, EStr(s))
X_EId(s) == G(<<Id(s)>>, EId(s))

X_AId(n) == G(<<X_IdentTok(n)>>, AId(n))
X_AFn(n, es) == G(<<X_IdentTok(n), Pu("(")>> \o Sep(es, ",") \o <<Pu(")")>>, AFn(n, Vals(es)))
X_AAs(n, x) == G(<<X_IdentTok(n), Pu("=")>> \o x.t, AAs(n, x.v))
(* one bracket per group of attribute parts *)
X_AttrGroup(inner, parts) ==
  G((IF inner THEN <<Pu("#"), Pu("!")>> ELSE <<Pu("#")>>) \o <<Pu("[")>> \o Sep(parts, ",") \o <<Pu("]")>>, Vals(parts))
X_Attrs(groups) == G(Cat(groups), Flatten(Vals(groups)))
NoAttrs == G(<<>>, <<>>)

X_Vis(v) == IF v = "pub" THEN <<Kw("pub")>> ELSE <<>>
X_SelfC == G(<<Pu("&"), Kw("self")>>, GSelfC)
X_SelfM == G(<<Pu("&"), Kw("mut"), Kw("self")>>, GSelfM)
X_Arg(n, x) == G(<<Id(n), Pu(":")>> \o x.t, GArg(n, x.v))
NoRet == G(<<>>, TNone)
X_Func(attrs, vis, n, args, ret) ==
  G(attrs.t \o X_Vis(vis) \o <<Kw("fn"), X_IdentTok(n), Pu("(")>> \o Sep(args, ",") \o <<Pu(")")>>
      \o (IF ret.v = TNone THEN <<>> ELSE <<Pu("->")>> \o ret.t),
    GFunc(vis, n, attrs.v, Vals(args), ret.v))
X_Field(attrs, vis, n, x) == G(attrs.t \o X_Vis(vis) \o <<X_IdentTok(n), Pu(":")>> \o x.t, GField(vis, n, x.v, attrs.v))
X_Vft(attrs, fs) == G(attrs.t \o <<Id("vftable"), Pu("{")>> \o Sep(fs, ";") \o <<Pu("}")>>, GVft(attrs.v, Vals(fs)))
X_Type(attrs, vis, n, stmts) ==
  G(attrs.t \o X_Vis(vis) \o <<Kw("type"), X_IdentTok(n), Pu("{")>> \o Sep(stmts, ",") \o <<Pu("}")>>,
    GType(vis, n, attrs.v, Vals(stmts)))
X_TypeSemi(attrs, vis, n) == G(attrs.t \o X_Vis(vis) \o <<Kw("type"), X_IdentTok(n), Pu(";")>>, GType(vis, n, attrs.v, <<>>))
X_Var(attrs, n) == G(attrs.t \o <<X_IdentTok(n)>>, GVar(n, FALSE, NoExpr, attrs.v))
X_VarEq(attrs, n, x) == G(attrs.t \o <<X_IdentTok(n), Pu("=")>> \o x.t, GVar(n, TRUE, x.v, attrs.v))
X_Enum(attrs, vis, n, base, vars) ==
  G(attrs.t \o X_Vis(vis) \o <<Kw("enum"), X_IdentTok(n), Pu(":")>> \o base.t \o <<Pu("{")>> \o Sep(vars, ",") \o <<Pu("}")>>,
    GEnum(vis, n, attrs.v, base.v, Vals(vars)))
X_ExtType(attrs, parts) ==
  LET n == X_Name(parts) IN G(attrs.t \o <<Kw("extern"), Kw("type")>> \o n.t \o <<Pu(";")>>, [name |-> n.v, attrs |-> attrs.v])
X_ExtVal(attrs, vis, n, x) ==
  G(attrs.t \o X_Vis(vis) \o <<Kw("extern"), X_IdentTok(n), Pu(":")>> \o x.t \o <<Pu(";")>>,
    [vis |-> vis, name |-> n, ty |-> x.v, attrs |-> attrs.v])
X_Impl(attrs, n, fs) ==
  G(attrs.t \o <<Kw("impl"), X_IdentTok(n), Pu("{")>> \o Sep(fs, ";") \o <<Pu("}")>>,
    [name |-> n, attrs |-> attrs.v, funcs |-> Vals(fs)])
X_Use(segs) ==      \* segs: sequence of names (each a sequence of parts)
  LET ns == [i \in DOMAIN segs |-> X_Name(segs[i])]
      RECURSIVE J(_)
      J(s) == IF s = <<>> THEN <<>> ELSE IF Len(s) = 1 THEN s[1].t ELSE s[1].t \o <<Pu(":j"), Pu(":")>> \o J(Tail(s))
  IN G(<<Kw("use")>> \o J(ns) \o <<Pu(";")>>, Vals(ns))
X_BackPro(n, s) == G(<<Id("backend"), X_IdentTok(n), Id("prologue"), St(s), Pu(";")>>, GBack(n, <<s>>, <<>>))
X_BackEpi(n, s) == G(<<Id("backend"), X_IdentTok(n), Id("epilogue"), St(s), Pu(";")>>, GBack(n, <<>>, <<s>>))
(* blocks: sequence of <<"prologue" | "epilogue", text>>; the texts of a kind are kept in source order *)
X_BackBraced(n, blocks) ==
  LET allOf(w) == LET s == SelectSeq(blocks, LAMBDA b : b[1] = w) IN [i \in DOMAIN s |-> s[i][2]]
  IN G(<<Id("backend"), X_IdentTok(n), Pu("{")>> \o Flatten([i \in DOMAIN blocks |-> <<Id(blocks[i][1]), St(blocks[i][2]), Pu(";")>>])
         \o <<Pu("}")>>,
       GBack(n, allOf("prologue"), allOf("epilogue")))

(* a module: inner attributes, then items in the given order; kinds: "use", "back", "ext", "eval", "def", "impl" *)
X_Mod(attrs, items) ==     \* items: sequence of [kind, g]
  LET pick(kd) == LET s == SelectSeq(items, LAMBDA it : it.kind = kd) IN [i \in DOMAIN s |-> s[i].g.v]
  IN G(attrs.t \o Flatten([i \in DOMAIN items |-> items[i].g.t]),
       GMod(attrs.v, pick("use"), pick("ext"), pick("eval"), pick("def"), pick("impl"), pick("back")))
It(kind, g) == [kind |-> kind, g |-> g]

(* ---------------------- compact token encoding ------------------------- *)
Enc(t) == CASE t.k = "pu" -> "p" \o t.v
            [] t.k = "kw" -> "k" \o t.v
            [] t.k = "id" -> "i" \o t.v
            [] t.k = "int" -> "n" \o t.n.a \o "," \o ToString(t.n.d)
            [] OTHER -> "s" \o t.v
EncAll(ts) == [i \in DOMAIN ts |-> Enc(ts[i])]
=============================================================================
