----------------------------- MODULE LoopTrace -----------------------------
(***************************************************************************)
(* Step-level trace validation of the resolution loop.                     *)
(* The harness runs the real pyxis WITHOUT imposing a schedule (natural    *)
(* hash order) on random inputs far beyond the exhaustive bounds and logs, *)
(* through the cfg(pyxis_verif) event sink, one record per step:           *)
(*   input | add_module | pass_begin | attempt | pass_end | build_end |    *)
(*   item (resolved size/alignment of a registry entry) | reset            *)
(* Each record is matched by the corresponding action of Pyxis.tla with    *)
(* the logged arguments bound (the attempted path, its outcome, the items  *)
(* inserted as a side effect, the unresolved set at the start of a pass,   *)
(* the verdict), so the search is linear in the trace.  Acceptance: every  *)
(* record consumed (POSTCONDITION on the diameter).                        *)
(***************************************************************************)
EXTENDS Pyxis, Json, IOUtils

Rec == ndJsonDeserialize(IOEnv.TRACE)

VARIABLE l
tvars == <<vars, l>>

IsEv(e) == l <= Len(Rec) /\ Rec[l].e = e
Adv == l' = l + 1
PathSet(sq) == {sq[i] : i \in DOMAIN sq}

TInit ==
  /\ l = 1
  /\ input = [ptr |-> 8, mods |-> <<>>]
  /\ InitRest

(* a new run: the recorded abstract input, a fresh SemanticState *)
TInput ==
  /\ IsEv("input")
  /\ input' = Rec[l].input
  /\ phase' = "adding" /\ added' = <<>> /\ mods' = RootMods /\ reg' = InitialReg
  /\ start' = {} /\ todo' = {} /\ hist' = <<>> /\ err' = "" /\ out' = {} /\ aux' = [insd |-> FALSE, extra |-> 0]
  /\ Adv

TAddModule ==
  /\ IsEv("add_module")
  /\ AddModule(Rec[l].mi)
  /\ (phase' = "failed") = ~Rec[l].ok
  /\ Adv

(* the first pass_begin is BeginPass; later ones only confirm the pass that EndPass started *)
TPassBegin ==
  /\ IsEv("pass_begin")
  /\ \/ /\ phase = "adding" /\ BeginPass /\ phase' = "pass"
        /\ start' = PathSet(Rec[l].todo)
     \/ /\ phase = "pass" /\ todo = start /\ start = PathSet(Rec[l].todo)
        /\ UNCHANGED vars
  /\ Adv

TAttempt ==
  /\ IsEv("attempt")
  /\ phase = "pass"
  /\ LET p == Rec[l].p
         r == Rec[l].r
     IN /\ p \in todo
        /\ DoAttempt(p)
        /\ UNCHANGED <<input, added, start, out>>
        /\ CASE r = "resolved" -> reg[p].st = "U" /\ reg'[p].st = "R" /\ phase' = "pass"
             [] r = "defer"    -> reg[p].st = "U" /\ reg'[p].st = "U" /\ phase' = "pass"
             [] r = "skip"     -> reg[p].st = "R"
             [] OTHER          -> phase' = "failed"
        (* the registry insertions the code performed during the attempt *)
        /\ \A i \in DOMAIN Rec[l].ins : Rec[l].ins[i] \in DOMAIN reg'
        /\ (DOMAIN reg') \ (DOMAIN reg) \subseteq PathSet(Rec[l].ins)
  /\ Adv

TPassEnd ==
  /\ IsEv("pass_end")
  /\ EndPass
  /\ Adv

(* the verdict: Ok needs the extern values to resolve and ends after emission *)
TBuildEnd ==
  /\ IsEv("build_end")
  /\ LET settled == IF phase = "adding" /\ Len(added) = Len(input.mods) /\ Unresolved(reg) = {} THEN "externs" ELSE phase
     IN IF Rec[l].ok
        THEN /\ settled = "externs" /\ ExternsOk
             /\ phase' = "done" /\ UNCHANGED <<input, added, mods, reg, start, todo, hist, err, out, aux>>
        ELSE /\ \/ settled = "failed"
                \/ (settled = "externs" /\ ~ExternsOk)
             /\ (Rec[l].class = "nonterm") = (settled = "failed" /\ err = "nonterm")
             /\ phase' = "failed" /\ UNCHANGED <<input, added, mods, reg, start, todo, hist, err, out, aux>>
  /\ Adv

(* size and alignment the code resolved for a registry entry *)
TItem ==
  /\ IsEv("item")
  /\ Rec[l].p \in DOMAIN reg /\ reg[Rec[l].p].st = "R"
  /\ reg[Rec[l].p].res.size = Rec[l].size /\ reg[Rec[l].p].res.align = Rec[l].align
  /\ UNCHANGED vars
  /\ Adv

TNext == TInput \/ TAddModule \/ TPassBegin \/ TAttempt \/ TPassEnd \/ TBuildEnd \/ TItem

TraceSpec == TInit /\ [][TNext]_tvars

TraceAccepted ==
  LET d == TLCGet("stats").diameter - 1
  IN IF d = Len(Rec) THEN TRUE
     ELSE Print(<<"TRACE-REJECTED-AT", d + 1, IF d + 1 <= Len(Rec) THEN Rec[d + 1].e ELSE "end">>, FALSE)
=============================================================================
