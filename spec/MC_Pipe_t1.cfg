SPECIFICATION MCSpec
CONSTANTS
  SpuriousPass = FALSE
  AllSchedules = FALSE
  PermuteModules = FALSE
  Ptrs = {4, 8}
  PipeBases = {1, 2, 3, 4, 5, 6}
  PipeAlpha = "full"
INVARIANTS Replay
CHECK_DEADLOCK FALSE
VIEW View
