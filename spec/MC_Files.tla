------------------------------ MODULE MC_Files ------------------------------
(***************************************************************************)
(* Files and items (C14): module trees with nested directories, empty      *)
(* modules, a module and a directory of the same name; 0..3 backend blocks *)
(* for `rust` and another backend in prologue-only / epilogue-only /       *)
(* braced form; every kind of item; and the name collisions (two types of  *)
(* one name, type vs enum, extern type vs definition, a user type named    *)
(* like a generated vftable struct).  Replayed through pyxis::build on a   *)
(* real directory tree.                                                    *)
(***************************************************************************)
EXTENDS Pyxis, Props, Json

CONSTANTS Trees, BackSets, Collisions, Ptrs, InDirs

FM == INSTANCE Files        \* which file a module is read from and written to

P == TypeDef("P", "pub", <<Field("x", "pub", <<>>, TCPtr(TNm("u8")), None, FALSE)>>)
P2 == TypeDef("P", "pub", <<Field("y", "pub", <<>>, TCPtr(TNm("u8")), None, FALSE),
                            Field("z", "pub", <<>>, TCPtr(TNm("u8")), None, FALSE)>>)
E == EnumDef("E", "pub", TNm("u16"), <<Variant("A", NumNone, FALSE), Variant("B", NumNone, FALSE)>>)
EP == EnumDef("P", "pub", TNm("u8"), <<Variant("A", NumNone, FALSE)>>)
V == [TypeDef("V", "pub", <<Field("w", "pub", <<>>, TCPtr(TNm("u8")), None, FALSE)>>)
        EXCEPT !.vft = Vft(None, <<Func("vf", "pub", <<>>, <<ArgM>>, TNone, None, None, "")>>)]
UserVft == TypeDef("VVftable", "pub", <<Field("q", "pub", <<>>, TCPtr(TNm("u8")), None, FALSE)>>)
Q == TypeDef("Q", "priv", <<Field("p", "pub", <<>>, TMPtr(TNm("Q")), None, FALSE)>>)

Pro(n) == "pub const PRO_" \o ToString(n) \o ": u32 = " \o ToString(n) \o ";"
Epi(n) == "pub const EPI_" \o ToString(n) \o ": u32 = " \o ToString(n) \o ";"
ProComment == "pub const PRO_9: u32 = 9; // trailing comment"

BackList(bs) ==
  CASE bs = "none"     -> <<>>
    [] bs = "pro"      -> <<Backend("rust", Pro(1), NoText)>>
    [] bs = "epi"      -> <<Backend("rust", NoText, Epi(1))>>
    [] bs = "both"     -> <<Backend("rust", Pro(1), Epi(1))>>
    [] bs = "two"      -> <<Backend("rust", Pro(1), NoText), Backend("rust", Pro(2), Epi(2))>>
    [] bs = "mixed"    -> <<Backend("cpp", "pub const CPP_1: u32 = 1;", "pub const CPP_END: u32 = 2;"), Backend("rust", Pro(1), Epi(1)),
                            Backend("cpp", "pub const CPP_2: u32 = 3;", NoText)>>
    (* rust blocks separated by a block of another backend: all of them count, in source order *)
    [] bs = "split"    -> <<Backend("rust", Pro(1), Epi(1)), Backend("cpp", "pub const CPP_4: u32 = 5;", NoText),
                            Backend("rust", Pro(2), Epi(2))>>
    (* a prologue that is not Rust: the build fails (every time) when the output cannot be pretty-printed *)
    [] bs = "badpro"   -> <<Backend("rust", "this is not rust (", NoText)>>
    [] bs = "comment"  -> <<Backend("rust", ProComment, Epi(1))>>
    (* one braced block that states two prologues *)
    [] bs = "twopro"   -> <<Backend("rust", Pro(1), Epi(1)) @@ [pro2 |-> Pro(2)]>>
    [] OTHER           -> <<Backend("cpp", "pub const CPP_3: u32 = 4;", NoText)>>

ModA(bs, col) ==
  LET defs == CASE col = "duptype"  -> <<P, E, V, P2>>
                [] col = "typeenum" -> <<P, E, V, EP>>
                [] col = "uservft"  -> <<P, E, V, UserVft>>
                [] col = "uservft1" -> <<UserVft, P, E, V>>
                [] OTHER            -> <<P, E, V>>
      exts == IF col = "externdef" THEN <<ExtType("X", 8, 4), ExtType("P", 8, 8)>> ELSE <<ExtType("X", 8, 4)>>
  IN [Module(<<"a">>, <<>>, defs)
        EXCEPT !.exts = exts, !.evals = <<ExtVal("gv", "pub", TNm("u32"), 4096), ExtVal("hv", "priv", TCPtr(TNm("P")), 8192)>>,
               !.backs = BackList(bs), !.doc = <<" module a">>]

ModB == [Module(<<"a", "b">>, <<<<"a", "P">>>>, <<Q, TypeDef("R", "pub", <<Field("p", "pub", <<>>, TNm("P"), None, FALSE)>>)>>)
           EXCEPT !.backs = <<Backend("rust", NoText, Epi(3))>>]
(* W declares an empty vftable block: it still gets its (empty) WVftable struct *)
ModC == Module(<<"c">>, <<>>, <<TypeDef("S", "pub", <<>>),
                                 [TypeDef("W", "pub", <<Field("k", "pub", <<>>, TCPtr(TNm("u8")), None, FALSE)>>) EXCEPT !.vft = Vft(None, <<>>)]>>)
ModEmpty == [Module(<<"e">>, <<>>, <<>>) EXCEPT !.backs = <<Backend("rust", Pro(4), NoText)>>]
ModBare == Module(<<"d", "bare">>, <<>>, <<>>)
(* a file name with a dot in its stem: c.v1.pyxis is module `c.v1`, next to module `c` *)
ModDot == Module(<<"c.v1">>, <<>>, <<TypeDef("SV", "pub", <<>>)>>)
ModDotDir == Module(<<"c.v1", "sub">>, <<>>, <<TypeDef("SD", "pub", <<>>)>>)
ModPlainDir == Module(<<"c", "sub">>, <<>>, <<TypeDef("SP", "pub", <<>>)>>)

(* sub-directories named like the input directory itself (`input`, or `types` for the build-script entry) *)
ModSame(d) == Module(<<d, "c">>, <<>>, <<TypeDef("Inner", "pub", <<Field("i", "pub", <<>>, TNm("u64"), None, FALSE)>>)>>)

MkInput(ptr, tree, bs, col, indir) ==
  [ptr |-> ptr, indir |-> indir,
   mods |-> CASE tree = "flat"   -> <<ModA(bs, col)>>
              [] tree = "samename" -> <<ModC, ModSame("input"), ModSame("types"), ModA(bs, col)>>
              [] tree = "nested" -> <<ModA(bs, col), ModB>>
              [] tree = "three"  -> <<ModC, ModA(bs, col), ModB>>
              [] tree = "dotted" -> <<ModC, ModDot, ModDotDir, ModPlainDir, ModA(bs, col)>>
              [] OTHER           -> <<ModA(bs, col), ModEmpty, ModBare>>]

MCInit ==
  /\ \E ptr \in Ptrs, tree \in Trees, bs \in BackSets, col \in Collisions, indir \in InDirs :
        /\ (indir # "plain" => (bs \in {"none", "both"} /\ col = "none"))
        /\ input = MkInput(ptr, tree, bs, col, indir)
  /\ InitRest

MCSpec == MCInit /\ [][Next]_vars /\ WF_vars(Next)

(* ------------------------------ the oracle ----------------------------- *)
(* two declarations that would produce the same item *)
ItemNames(m) ==
  [i \in DOMAIN m.defs |-> m.defs[i].name]
  \o [i \in DOMAIN m.exts |-> m.exts[i].name]
  \o Flatten([i \in DOMAIN m.defs |-> IF m.defs[i].k = "type" /\ m.defs[i].vft.has
                                       THEN <<m.defs[i].name \o "Vftable">> ELSE <<>>])
HasDuplicate(m) == \E i, j \in DOMAIN ItemNames(m) : i # j /\ ItemNames(m)[i] = ItemNames(m)[j]
Duplicate == \E mi \in DOMAIN input.mods : HasDuplicate(input.mods[mi])

(* KF: until the repair is in, duplicates are overwritten silently *)
KF_Dup == ~CHECKDUP /\ Duplicate

ExpectedFile(m) ==
  [path |-> m.path, src |-> FM!SrcRel(FM!FileOfModule(m.path)), outrel |-> FM!OutRel(m.path),
   structs |-> {m.defs[i].name : i \in {j \in DOMAIN m.defs : m.defs[j].k = "type"}}
               \cup {m.defs[i].name \o "Vftable" : i \in {j \in DOMAIN m.defs : m.defs[j].k = "type" /\ m.defs[j].vft.has}},
   enums |-> {m.defs[i].name : i \in {j \in DOMAIN m.defs : m.defs[j].k = "enum"}},
   accessors |-> [i \in DOMAIN m.evals |-> m.evals[i].name],
   pro |-> DeclTexts(m, "pro"), epi |-> DeclTexts(m, "epi"), doc |-> m.doc]

Inv_C14 ==
  Terminal =>
    /\ Duplicate => Rejected
    /\ Accepted =>
         /\ {f.path : f \in out} = {input.mods[mi].path : mi \in DOMAIN input.mods}
         /\ \A mi \in DOMAIN input.mods :
              LET m == input.mods[mi]
                  f == CHOOSE g \in out : g.path = m.path
                  ex == ExpectedFile(m)
                  names == IF f.items = <<>> THEN {} ELSE DOMAIN f.items
              IN /\ {n \in names : f.items[n].k = "struct"} = ex.structs
                 /\ {n \in names : f.items[n].k = "enum"} = ex.enums
                 /\ [i \in DOMAIN f.evals |-> f.evals[i].name] = ex.accessors
                 /\ f.pro = ex.pro /\ f.epi = ex.epi /\ f.doc = ex.doc

(* the declaration a registered path stands for never changes *)
OriginStable ==
  [][\A p \in DOMAIN reg : p \in DOMAIN reg' => (reg'[p].src = reg[p].src /\ (reg[p].cat = "vft") = (reg'[p].cat = "vft"))]_vars

PViol == IF Inv_C14 THEN {} ELSE {"C14"}

ReplayRecord ==
  [group |-> "files", input |-> input, order |-> added, sched |-> hist,
   accepted |-> Accepted, err |-> err, pviol |-> IF Terminal THEN PViol ELSE {},
   oracle |-> [duplicate |-> Duplicate,
               files |-> {ExpectedFile(input.mods[mi]) : mi \in DOMAIN input.mods},
               kf |-> IF KF_Dup THEN <<"C14:duplicate-declaration", "C09:duplicate-declaration">> ELSE <<>>],
   mirror |-> [out |-> out]]

Replay == Terminal => PrintT(<<"REPLAY", ToJson(ReplayRecord)>>)
View == StdView
=============================================================================
