----------------------------- MODULE MC_Rewrite -----------------------------
(***************************************************************************)
(* Equivalent descriptions produce identical bindings (C20).               *)
(* A module with a type T (fields over a small palette, gaps written as    *)
(* addresses or as `_: unknown<N>`), a type V with a vftable block (some   *)
(* indices written), an enum E (some values written).  Every applicable    *)
(* rewrite of the listed family is applied, singly and in pairs, and the   *)
(* outcome of a deterministic reference run on the rewritten description   *)
(* is compared with the outcome of the original inside one TLC state.      *)
(***************************************************************************)
EXTENDS Det, Props, Json

CONSTANTS FieldSets, VftSets, EnumSets, Ptrs, Pairs

(* field lists of T: each <<name, type key, addr>> *)
FT(k) == CASE k = "u8" -> TNm("u8") [] k = "u16" -> TNm("u16") [] k = "u32" -> TNm("u32") [] k = "ptr" -> TCPtr(TNm("u8"))
           [] k = "V" -> TNm("V") [] k = "unk8" -> TUnk(8) [] k = "unk16" -> TUnk(16)
           [] k = "unk4" -> TUnk(4) [] k = "unk2" -> TUnk(2) [] k = "arr" -> TArr(TNm("u16"), 2) [] OTHER -> TNm("u64")
QFieldSets ==
  {<< <<"a", "u32", None>>, <<"b", "u32", None>> >>,
   << <<"a", "u32", None>>, <<"b", "u32", 8>> >>,
   << <<"a", "u32", None>>, <<"_", "unk4", None>>, <<"b", "u32", None>> >>,
   << <<"a", "u16", None>>, <<"_", "unk2", None>>, <<"b", "arr", None>>, <<"c", "u32", 12>> >>,
   << <<"a", "ptr", None>>, <<"b", "ptr", None>> >>,
   << <<"a", "u32", 4>>, <<"b", "u16", None>>, <<"c", "u16", None>> >>,
   << <<"a", "u8", None>>, <<"b", "u8", None>>, <<"c", "u16", None>>, <<"d", "u32", 8>> >>,
   (* a base that carries the vftable pointer: first, or behind a gap *)
   << <<"b", "V", None>>, <<"x", "ptr", None>> >>,
   << <<"b", "V", 0>>, <<"x", "ptr", None>> >>,
   << <<"_", "unk16", None>>, <<"b", "V", None>>, <<"x", "ptr", None>> >>,
   << <<"b", "V", 16>>, <<"x", "ptr", None>> >>,
   << >>}
(* thorough: every list of up to three fields over the palette with addresses *)
TKeys == {"u8", "u16", "u32", "ptr", "unk4", "arr", "u64"}
TAddrs == {None, 4, 8, 16}
TField == {<<n, k, a>> : n \in {"f"}, k \in TKeys, a \in TAddrs}
Rename(sq) == [i \in DOMAIN sq |-> <<IF sq[i][2] = "unk4" THEN "_" ELSE <<"a", "b", "c">>[i], sq[i][2], sq[i][3]>>]
TFieldSets == {Rename(sq) : sq \in UNION {[1..n -> TField] : n \in 1..3}}

(* vftable: indices of f1..f3 (None = implicit), table size *)
QVftSets == {<<None, None, None, None>>, <<None, 2, None, None>>, <<1, None, 4, None>>, <<None, None, None, 5>>, <<0, 1, 2, 3>>}
(* the thorough sweep over field lists keeps the other two definitions at one representative each *)
T1VftSets == {<<None, 2, None, None>>}
T1EnumSets == {<<None, 7, None>>}
(* enum values of A..C as small integers or implicit *)
QEnumSets == {<<None, None, None>>, <<3, None, None>>, <<None, 7, None>>, <<0 - 2, None, 5>>, <<9, 2, None>>}

MkT(fs, size) ==
  [TypeDef("T", "pub", [i \in DOMAIN fs |-> Field(fs[i][1], "pub", IF i % 2 = 1 THEN <<" field doc">> ELSE <<>>,
                                                  FT(fs[i][2]), fs[i][3], fs[i][2] = "V")])
     EXCEPT !.doc = <<" the type">>, !.size = size, !.align = IF \E i \in DOMAIN fs : fs[i][2] = "V" THEN None ELSE 4]
MkV(vs) ==
  [TypeDef("V", "pub", <<Field("w", "pub", <<>>, TCPtr(TNm("u8")), None, FALSE)>>)
     EXCEPT !.vft = Vft(vs[4], <<Func("f1", "pub", <<>>, <<ArgM>>, TNone, None, vs[1], ""),
                                 Func("f2", "pub", <<" second slot">>, <<ArgC, Arg("a", TNm("u32"))>>, TNm("u32"), None, vs[2], "cdecl"),
                                 Func("f3", "priv", <<>>, <<ArgM>>, TNone, None, vs[3], "")>>)]
EVal(x) == IF x = None THEN NumNone ELSE NumInt(x)
(* the default marker sits on the middle variant: the implicit values after it keep counting *)
(* en: the name of the enum; `v` differs from the type `V` only in the case of its letter (the order of the emitted items must  *)
(* not depend on how such names compare)                                                                                     *)
MkE(es, en) == [EnumDef(en, "pub", TNm("i32"), <<Variant("A", EVal(es[1]), FALSE), Variant("B", EVal(es[2]), TRUE), Variant("C", EVal(es[3]), FALSE)>>)
              EXCEPT !.defaultable = TRUE]

MkInput(ptr, fs, vs, es, en) ==
  [ptr |-> ptr, mods |-> <<Module(<<"m">>, <<>>, <<MkT(fs, None), MkV(vs), MkE(es, en)>>)>>]

MCInit ==
  /\ \E ptr \in Ptrs, fs \in FieldSets, vs \in VftSets, es \in EnumSets, en \in {"E", "v"} :
        /\ (en = "v" => (vs = <<None, None, None, None>> \/ Cardinality(VftSets) = 1) /\ es \in {<<None, None, None>>, <<None, 7, None>>})
        /\ input = MkInput(ptr, fs, vs, es, en)
  /\ InitRest

MCSpec == MCInit /\ [][Next]_vars /\ WF_vars(Next)

(* ------------------------------ rewrites ------------------------------- *)
Crate == [ptr |-> input.ptr, files |-> out, exts |-> ExtMap(input), real |-> <<>>]
M == input.mods[1]
T == M.defs[1]
V == M.defs[2]
E == M.defs[3]
SetDef(inp, di, d) == [inp EXCEPT !.mods[1].defs[di] = d]

TStarts == Starts(Crate, input, M, T)
VSlots == DeclSlots(V.vft)
EVals == [i \in DOMAIN E.vars |-> reg[<<"m", E.name>>].res.vars[i].val]

DropAt(s, i) == SubSeq(s, 1, i - 1) \o SubSeq(s, i + 1, Len(s))
InsertAt(s, i, x) == SubSeq(s, 1, i - 1) \o <<x>> \o SubSeq(s, i, Len(s))

(* the set of applicable single rewrites, as <<kind, index>> *)
Applicable ==
  {<<"addr", i>> : i \in {j \in DOMAIN T.fields : ~IsSome(T.fields[j].addr) /\ T.fields[j].name # "_"}}
  \cup {<<"gap2addr", i>> : i \in {j \in DOMAIN T.fields : T.fields[j].name = "_" /\ T.fields[j].ty.k = "unk"
                                      /\ j < Len(T.fields) /\ ~IsSome(T.fields[j + 1].addr) /\ ~IsSome(T.fields[j].addr)}}
  \cup {<<"addr2gap", i>> : i \in {j \in DOMAIN T.fields : IsSome(T.fields[j].addr) /\ T.fields[j].addr > TStarts[j].cur}}
  \cup (IF ~IsSome(T.size) THEN {<<"size", 0>>} ELSE {})
  \cup {<<"index", k>> : k \in {j \in DOMAIN V.vft.funcs : ~IsSome(V.vft.funcs[j].index)}}
  \cup {<<"enumval", k>> : k \in {j \in DOMAIN E.vars : E.vars[j].val = NumNone}}
  \cup {<<"reorder", 0>>}

Apply(inp, r) ==
  LET t == inp.mods[1].defs[1]
      v == inp.mods[1].defs[2]
      e == inp.mods[1].defs[3]
      i == r[2]
  IN CASE r[1] = "addr" -> SetDef(inp, 1, [t EXCEPT !.fields[i].addr = TStarts[i].start])
       [] r[1] = "gap2addr" -> SetDef(inp, 1, [t EXCEPT !.fields = DropAt([@ EXCEPT ![i + 1].addr = TStarts[i + 1].start], i)])
       [] r[1] = "addr2gap" -> SetDef(inp, 1, [t EXCEPT !.fields =
                                   InsertAt([@ EXCEPT ![i].addr = None], i,
                                            Field("_", "priv", <<>>, TUnk(TStarts[i].start - TStarts[i].cur), None, FALSE))])
       [] r[1] = "size" -> SetDef(inp, 1, [t EXCEPT !.size = reg[<<"m", "T">>].res.size])
       [] r[1] = "index" -> SetDef(inp, 2, [v EXCEPT !.vft.funcs[i].index = VSlots[i]])
       [] r[1] = "enumval" -> SetDef(inp, 3, [e EXCEPT !.vars[i].val = EVals[i]])
       [] OTHER -> [inp EXCEPT !.mods[1].defs = <<@[3], @[2], @[1]>>]

(* pairs of rewrites that touch different definitions (indices stay valid) *)
FieldKinds == {"addr", "gap2addr", "addr2gap"}
Compatible(r, s) ==
  /\ r # s /\ "reorder" \notin {r[1], s[1]}
  /\ ~(r[1] \in FieldKinds /\ s[1] \in FieldKinds /\ {r[1], s[1]} \cap {"gap2addr", "addr2gap"} # {})

Variants ==
  {[r |-> <<r>>, input |-> Apply(input, r)] : r \in Applicable}
  \cup (IF Pairs THEN {[r |-> <<pr[1], pr[2]>>, input |-> Apply(Apply(input, pr[1]), pr[2])] :
                         pr \in {q \in Applicable \X Applicable : Compatible(q[1], q[2])}}
        ELSE {})

SameOutcome(v) == LET o == DetRunOn(v.input) IN o.ok /\ o.out = out

Inv_C20 == Accepted => \A v \in Variants : SameOutcome(v)
PViol == IF Inv_C20 THEN {} ELSE {"C20"}

ReplayRecord ==
  [group |-> "rewrite", input |-> input, order |-> added, sched |-> hist,
   accepted |-> Accepted, err |-> err, pviol |-> IF Terminal THEN PViol ELSE {},
   oracle |-> [kf |-> <<>>],
   variants |-> IF Accepted THEN Variants ELSE {}]

Replay == Terminal => PrintT(<<"REPLAY", ToJson(ReplayRecord)>>)
View == StdView
=============================================================================
