----------------------------- MODULE RustLayout -----------------------------
(***************************************************************************)
(* The target model, independent of pyxis: how the Rust compiler lays out  *)
(* the emitted items (Rust reference, "Type layout": repr(C),              *)
(* repr(C, align(N)), repr(C, packed), repr(<int>) field-less enums).      *)
(* It is validated against the real compilers (host stable for pointer     *)
(* width 8, nightly i686-pc-windows-msvc for width 4) in every run; a      *)
(* disagreement there is a tool error, never a pyxis violation.            *)
(*                                                                         *)
(* crate = [ptr, files : set of emitted files, exts : path -> [size,align], *)
(*          real : sequence of layouts [path, size, align, offs] measured by *)
(*                 a real compiler (empty in the model; in trace validation  *)
(*                 the measured layout of an item takes precedence)]         *)
(***************************************************************************)
EXTENDS Emit

(* size = alignment for the scalar types on both targets of interest;      *)
(* `void` is ::std::ffi::c_void, a one-byte enum                           *)
RustBuiltin(n) ==
  IF n = "void" THEN [size |-> 1, align |-> 1]
  ELSE LET s == Builtins[CHOOSE i \in DOMAIN Builtins : Builtins[i][1] = n][2]
       IN [size |-> s, align |-> s]

CrateItemAt(crate, p) ==
  LET fs == {f \in crate.files : f.path = Parent(p) /\ f.items # <<>> /\ Last(p) \in DOMAIN f.items}
  IN IF fs = {} THEN [k |-> "none"] ELSE (CHOOSE f \in fs : TRUE).items[Last(p)]

NoLayout == [size |-> None, align |-> None, offs |-> <<>>]

RECURSIVE RustTy(_, _, _)
RECURSIVE RustItem(_, _, _)

(* [size, align] of a type as the compiler sees it                         *)
RustTy(crate, rt, fuel) ==
  CASE rt.k \in {"cptr", "mptr", "fn"} -> [size |-> crate.ptr, align |-> crate.ptr]
    [] rt.k = "arr" -> LET e == RustTy(crate, rt.t, fuel)
                       IN IF e.size = None THEN [size |-> None, align |-> None]
                          ELSE [size |-> e.size * rt.len, align |-> e.align]
    [] rt.k = "raw" ->
         IF Len(rt.p) = 1 /\ rt.p[1] \in BuiltinNames THEN RustBuiltin(rt.p[1])
         ELSE IF rt.p \in DOMAIN crate.exts
              THEN [size |-> RoundUp(crate.exts[rt.p].size, crate.exts[rt.p].align),
                    align |-> crate.exts[rt.p].align]
         ELSE LET l == RustItem(crate, rt.p, fuel)
              IN [size |-> l.size, align |-> l.align]
    [] OTHER -> [size |-> None, align |-> None]

RECURSIVE ReprCFold(_, _, _, _, _, _, _)
ReprCFold(crate, fields, packed, cur, maxal, acc, fuel) ==
  \* acc = offsets so far; returns [end, maxal, offs] or None-size on failure
  IF fields = <<>> THEN [end |-> cur, maxal |-> maxal, offs |-> acc]
  ELSE LET t == RustTy(crate, Head(fields).ty, fuel)
       IN IF t.size = None THEN [end |-> None, maxal |-> None, offs |-> acc]
          ELSE LET al == IF packed THEN 1 ELSE t.align
                   off == RoundUp(cur, al)
               IN ReprCFold(crate, Tail(fields), packed, off + t.size, Max(maxal, al),
                            Append(acc, off), fuel)

RustItem(crate, p, fuel) ==
  LET it == CrateItemAt(crate, p)
      ri == FirstIdx(crate.real, LAMBDA r : r.path = p)
  IN IF ri # 0 THEN [size |-> crate.real[ri].size, align |-> crate.real[ri].align, offs |-> crate.real[ri].offs]
     ELSE IF fuel = 0 \/ it.k = "none" THEN NoLayout
     ELSE IF it.k = "enum" THEN
       LET t == RustTy(crate, it.repr, fuel - 1)
       IN [size |-> t.size, align |-> t.align, offs |-> <<>>]
     ELSE
       LET f == ReprCFold(crate, it.fields, it.packed, 0, 1, <<>>, fuel - 1)
           al == IF it.packed \/ f.end = None THEN 1 ELSE Max(f.maxal, IF IsSome(it.align) THEN it.align ELSE 1)
       IN IF f.end = None THEN NoLayout
          ELSE [size |-> RoundUp(f.end, al), align |-> al, offs |-> f.offs]

FieldOffset(crate, p, name) ==
  LET it == CrateItemAt(crate, p)
      l == RustItem(crate, p, 8)
      i == FirstIdx(it.fields, LAMBDA f : f.name = name)
  IN IF it.k # "struct" \/ i = 0 \/ l.size = None THEN None ELSE l.offs[i]

=============================================================================
