----------------------------- MODULE MC_Names -----------------------------
(***************************************************************************)
(* Names that would denote the same Rust item (C13, and the last clause of *)
(* C14: "two declarations that would produce the same item are an error,   *)
(* never a silent overwrite").                                             *)
(*                                                                         *)
(* One module `m`; a shape puts two names of one namespace on the same     *)
(* spelling (or on spellings that differ only by the raw-identifier prefix *)
(* `r#`, which is not part of a Rust identifier):                          *)
(*   fields of a type, a field against the generated `vftable` pointer     *)
(*   field, variants of an enum, functions of a vftable block, parameters  *)
(*   of a function, an impl function against the generated accessors       *)
(*   `vftable()` / `get()`, extern values, types / enums / extern types.   *)
(* and control shapes in which equal spellings live in different           *)
(* namespaces (all of those must be accepted and compile).                 *)
(* The declarative side is NameClash (Props.tla): a clash must be rejected.*)
(* The same family carries the other shapes an accepted input must not     *)
(* have for its bindings to compile: a copyable / cloneable type embedding *)
(* an emitted type that is not (DeriveUnsat), an enum without cases.       *)
(***************************************************************************)
EXTENDS Pyxis, Props, Json

CONSTANTS Shapes, Ptrs, Raws

PU8 == TCPtr(TNm("u8"))
Fld(n, ty) == Field(n, "pub", <<>>, ty, None, FALSE)
VF(n) == Func(n, "pub", <<>>, <<ArgC>>, TNone, None, None, "")
IF_(n, args) == Func(n, "pub", <<>>, <<ArgC>> \o args, TNone, 1048576, None, "")

(* second(n, raw): the second spelling of the name *)
Snd(n, raw) == IF raw THEN "r#" \o n ELSE n

MkInput(ptr, shape, raw) ==
  LET T(fields) == TypeDef("T", "pub", fields)
      defs ==
        CASE shape = "field"        -> <<T(<<Fld("a", TNm("u32")), Fld(Snd("a", raw), TNm("u32"))>>)>>
          [] shape = "field-vftable" -> <<[T(<<Fld(Snd("vftable", raw), PU8)>>) EXCEPT !.vft = Vft(None, <<VF("f")>>)]>>
          [] shape = "variant"      -> <<EnumDef("E", "pub", TNm("u32"), <<Variant("A", NumNone, FALSE), Variant(Snd("A", raw), NumNone, FALSE)>>)>>
          [] shape = "vfunc"        -> <<[T(<<Fld("x", PU8)>>) EXCEPT !.vft = Vft(None, <<VF("f"), VF(Snd("f", raw))>>)]>>
          [] shape = "param"        -> <<T(<<Fld("x", PU8)>>)>>
          [] shape = "impl-vftable" -> <<[T(<<Fld("x", PU8)>>) EXCEPT !.vft = Vft(None, <<VF("f")>>)]>>
          [] shape = "impl-get"     -> <<[T(<<Fld("x", PU8)>>) EXCEPT !.singleton = 65536]>>
          [] shape = "eval"         -> <<T(<<Fld("x", PU8)>>)>>
          [] shape = "type"         -> <<T(<<Fld("x", PU8)>>), TypeDef(Snd("T", TRUE), "pub", <<Fld("y", PU8)>>)>>
          [] shape = "type-enum"    -> <<T(<<Fld("x", PU8)>>), EnumDef(Snd("T", TRUE), "pub", TNm("u32"), <<Variant("A", NumNone, FALSE)>>)>>
          [] shape = "type-ext"     -> <<T(<<Fld("x", PU8)>>)>>
          (* controls: equal spellings in different namespaces *)
          [] shape = "ok-field-type"  -> <<T(<<Fld("T", PU8), Fld("E", PU8)>>), EnumDef("E", "pub", TNm("u32"), <<Variant("T", NumNone, FALSE)>>)>>
          [] shape = "ok-param-field" -> <<T(<<Fld("x", PU8)>>)>>
          [] shape = "ok-fn-field"    -> <<[T(<<Fld("f", PU8), Fld("get", PU8)>>) EXCEPT !.vft = Vft(None, <<VF("f")>>)]>>
          (* derives: U is the embedded type *)
          [] shape = "copy-struct"  -> <<[T(<<Fld("u", TNm("U"))>>) EXCEPT !.copyable = TRUE], TypeDef("U", "pub", <<Fld("x", PU8)>>)>>
          [] shape = "clone-struct" -> <<[T(<<Fld("u", TArr(TNm("U"), 2))>>) EXCEPT !.cloneable = TRUE], TypeDef("U", "pub", <<Fld("x", PU8)>>)>>
          [] shape = "copy-clone"   -> <<[T(<<Fld("u", TNm("U"))>>) EXCEPT !.copyable = TRUE], [TypeDef("U", "pub", <<Fld("x", PU8)>>) EXCEPT !.cloneable = TRUE]>>
          [] shape = "copy-enum"    -> <<[T(<<Fld("e", TNm("E")), Fld("pad", TNm("u32"))>>) EXCEPT !.copyable = TRUE],
                                         EnumDef("E", "pub", TNm("u32"), <<Variant("A", NumNone, FALSE)>>)>>
          [] shape = "copy-vft"     -> <<[T(<<Fld("t", TNm("UVftable"))>>) EXCEPT !.copyable = TRUE],
                                         [TypeDef("U", "pub", <<Fld("x", PU8)>>) EXCEPT !.vft = Vft(None, <<VF("f")>>)]>>
          [] shape = "ok-copy"      -> <<[T(<<Fld("u", TNm("U")), Fld("p", TMPtr(TNm("V"))), Fld("e", TArr(TNm("E"), 2))>>) EXCEPT !.copyable = TRUE],
                                         [TypeDef("U", "pub", <<Fld("x", PU8)>>) EXCEPT !.copyable = TRUE], TypeDef("V", "pub", <<Fld("x", PU8)>>),
                                         [EnumDef("E", "pub", TNm("u32"), <<Variant("A", NumNone, FALSE)>>) EXCEPT !.copyable = TRUE]>>
          [] shape = "ok-copy-ext"  -> <<[T(<<Fld("u", TNm("X")), Fld("v", PU8)>>) EXCEPT !.copyable = TRUE]>>
          [] shape = "empty-enum"   -> <<EnumDef("E", "pub", TNm("u32"), <<>>)>>
          [] OTHER -> <<T(<<Fld("x", PU8)>>)>>
      impls ==
        CASE shape = "param"          -> <<Impl("T", <<IF_("g", <<Arg("a", TNm("u32")), Arg(Snd("a", raw), TNm("u32"))>>)>>)>>
          [] shape = "impl-vftable"   -> <<Impl("T", <<IF_(Snd("vftable", raw), <<>>)>>)>>
          [] shape = "impl-get"       -> <<Impl("T", <<IF_(Snd("get", raw), <<>>)>>)>>
          [] shape = "ok-param-field" -> <<Impl("T", <<IF_("x", <<Arg("x", TNm("u32")), Arg("T", TNm("u32"))>>)>>)>>
          [] shape = "ok-fn-field"    -> <<Impl("T", <<IF_("x", <<>>)>>)>>
          [] OTHER -> <<>>
      evals == IF shape = "eval" THEN <<ExtVal("g", "pub", TNm("u32"), 4096), ExtVal(Snd("g", raw), "pub", TNm("u64"), 8192)>>
               ELSE IF shape = "ok-field-type" THEN <<ExtVal("T", "pub", TNm("u32"), 4096)>> ELSE <<>>
      exts == IF shape = "type-ext" THEN <<ExtType(Snd("T", TRUE), 8, 8)>>
              ELSE IF shape = "ok-copy-ext" THEN <<ExtType("X", 8, 4)>> ELSE <<>>
  IN [ptr |-> ptr,
      mods |-> <<[Module(<<"m">>, <<>>, defs) EXCEPT !.impls = impls, !.evals = evals, !.exts = exts]>>]

MCInit ==
  /\ \E ptr \in Ptrs, shape \in Shapes, raw \in Raws :
        (* the type-level shapes only exist with the raw spelling: the plain duplicate is the family of C14 (fix F04) *)
        /\ (shape \in {"type", "type-enum", "type-ext", "ok-field-type", "ok-param-field", "ok-fn-field", "copy-struct", "clone-struct",
                        "copy-clone", "copy-enum", "copy-vft", "ok-copy", "ok-copy-ext", "empty-enum"} => ~raw)
        /\ input = MkInput(ptr, shape, raw)
  /\ InitRest

MCSpec == MCInit /\ [][Next]_vars /\ WF_vars(Next)

MustReject == NameClash(input) \/ DeriveUnsat(input) \/ EmptyEnum(input)
Inv_Names == Terminal => (MustReject => Rejected)
PViol == IF Inv_Names THEN {} ELSE {"C13", "C14"}

RegView ==
  LET ps == {p \in DOMAIN reg : reg[p].cat # "pre"}
  IN {[path |-> p, cat |-> reg[p].cat, st |-> reg[p].st, vis |-> reg[p].vis, res |-> reg[p].res] : p \in ps}

ReplayRecord ==
  [group |-> "names", input |-> input, order |-> added, sched |-> hist,
   accepted |-> Accepted, err |-> err, pviol |-> IF Terminal THEN PViol ELSE {},
   oracle |-> [clash |-> MustReject, sameItem |-> SameItemClash(input), kf |-> <<>>],
   mirror |-> [reg |-> RegView, out |-> out]]

Replay == Terminal => PrintT(<<"REPLAY", ToJson(ReplayRecord)>>)
View == StdView
=============================================================================
