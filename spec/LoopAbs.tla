------------------------------ MODULE LoopAbs ------------------------------
(***************************************************************************)
(* The resolution loop of SemanticState::build reduced to what matters for *)
(* termination (C12, C10): a finite worklist U of unresolved items, re-read at    *)
(* the start of every pass; a pass may resolve any subset of it; a pass    *)
(* that leaves U unchanged ends the build with the "will not terminate"    *)
(* error -- except that the code compares the two lists INCLUDING order,   *)
(* so a HashMap resize can buy one more pass (action Spurious; at most X). *)
(*                                                                         *)
(* Pyxis.tla refines this module (checked by TLC in MC_Graph, property     *)
(* LA!ASpec under the mapping given there); the bound on the number of     *)
(* passes proved in LoopAbsProofs.tla with TLAPS is therefore unbounded in the number of   *)
(* items, where TLC's liveness check is not.                               *)
(***************************************************************************)
EXTENDS Naturals, FiniteSets

CONSTANT X        \* bound on spurious passes
ASSUME XNat == X \in Nat

VARIABLES U,    \* the unresolved set the current pass started from
          st,   \* "load" | "run" | "after" | "failed"
          n,    \* passes begun
          x,    \* spurious passes taken
          c0    \* size of the first worklist (history)

avars == <<U, st, n, x, c0>>

AInit == U = {} /\ st = "load" /\ n = 0 /\ x = 0 /\ c0 = 0

(* all modules added: the first worklist (any finite set) *)
Load ==
  /\ st = "load"
  /\ IsFiniteSet(U') /\ c0' = Cardinality(U')
  /\ IF U' = {} THEN st' = "after" /\ n' = 0 ELSE st' = "run" /\ n' = 1
  /\ UNCHANGED x

(* a module could not be added *)
LoadFail == st = "load" /\ st' = "failed" /\ UNCHANGED <<U, n, x, c0>>

(* a pass that resolved something, and something is left *)
Progress ==
  /\ st = "run"
  /\ U' \subseteq U /\ U' # U /\ U' # {}
  /\ n' = n + 1 /\ UNCHANGED <<st, x, c0>>

(* a pass that resolved everything that was left *)
Finish == st = "run" /\ U' = {} /\ st' = "after" /\ UNCHANGED <<n, x, c0>>

(* a pass that resolved nothing *)
Stuck == st = "run" /\ st' = "failed" /\ UNCHANGED <<U, n, x, c0>>

(* a pass that resolved nothing but the order of the list changed *)
Spurious == st = "run" /\ x < X /\ x' = x + 1 /\ n' = n + 1 /\ UNCHANGED <<U, st, c0>>

(* an attempt reported a hard error *)
Abort == st = "run" /\ st' = "failed" /\ U' \subseteq U /\ UNCHANGED <<n, x, c0>>

(* the extern values did not resolve after the loop *)
LateFail == st = "after" /\ st' = "failed" /\ UNCHANGED <<U, n, x, c0>>

ANext == Load \/ LoadFail \/ Progress \/ Finish \/ Stuck \/ Spurious \/ Abort \/ LateFail

ASpec == AInit /\ [][ANext]_avars

TypeOK ==
  /\ IsFiniteSet(U)
  /\ st \in {"load", "run", "after", "failed"}
  /\ n \in Nat /\ x \in Nat /\ c0 \in Nat
  /\ x <= X

(* the pass counter is paid for by resolved items and spurious passes *)
Budget == n + Cardinality(U) <= c0 + x + 1

PassBound == n <= c0 + X + 1

AInv == TypeOK /\ Budget
=============================================================================
