----------------------------- MODULE Function -----------------------------
(***************************************************************************)
(* semantic::function::build and the vftable slot list                     *)
(* (type_definition::vftable::convert_grammar_functions_to_semantic_...).  *)
(*                                                                         *)
(* A built function is                                                     *)
(*   [vis, name, doc, body, args, ret, cc]                                 *)
(*   body = [k : "addr" | "field" | "vft", a, f, fn]                       *)
(*   args = sequence of [k : "cself" | "mself" | "named", name, ty]        *)
(*          (ty resolved; TNone for receivers)                             *)
(*   ret  = resolved type or TNone                                         *)
(* Outcomes are records [ok |-> TRUE, v |-> ...] / [ok |-> FALSE, why].    *)
(***************************************************************************)
EXTENDS Types

Conventions == {"C", "cdecl", "stdcall", "fastcall", "thiscall", "vectorcall", "system"}

BodyAddr(a)      == [k |-> "addr",  a |-> a,    f |-> "", fn |-> ""]
BodyField(f, fn) == [k |-> "field", a |-> None, f |-> f,  fn |-> fn]
BodyVft(fn)      == [k |-> "vft",   a |-> None, f |-> "", fn |-> fn]

(* Function::is_internal: no wrapper for a function whose name starts with `_`.  CHECKFWD (named deviation, C07):   *)
(* TRUE = the repaired behaviour: a forwarder to a base function is never internal (its name may start with the name *)
(* of a base field), and internal functions of a base are not forwarded in the first place                          *)
CHECKFWD == TRUE
StartsUnderscore(name) == Len(name) > 0 /\ SubSeq(name, 1, 1) = "_"
IsInternalFn(f) == StartsUnderscore(f.name) /\ ~(CHECKFWD /\ f.body.k = "field")

Fail(why) == [ok |-> FALSE, why |-> why]
Ok(v)     == [ok |-> TRUE, v |-> v]

HasSelf(args) == \E i \in DOMAIN args : args[i].k \in {"cself", "mself"}

(* `DROPRET` names a deliberate deviation of the code from property C05 /  *)
(* C10: an unresolvable return type is dropped (and_then) instead of       *)
(* failing.  With the repair applied (fix: commit) the constant is FALSE   *)
(* and the mirror fails like the code does.                                *)
DROPRET == FALSE

BuildFunction(reg, scope, isV, f) ==
  LET rargs == [i \in DOMAIN f.args |->
                  IF f.args[i].k = "named"
                  THEN [k |-> "named", name |-> f.args[i].name,
                        ty |-> ResolveTy(reg, scope, f.args[i].ty)]
                  ELSE f.args[i]]
      badArg == \E i \in DOMAIN rargs : rargs[i].k = "named" /\ rargs[i].ty = TNone
      rret == ResolveTy(reg, scope, f.ret)
      cc == IF f.cc # "" THEN f.cc
            ELSE IF HasSelf(f.args) THEN "thiscall" ELSE "system"
      body == IF isV THEN BodyVft(f.name) ELSE BodyAddr(f.addr)
  IN  \* attribute loop, in the order the code meets the failure causes
      IF IsSome(f.addr) /\ isV THEN Fail("vfunc-address")
      ELSE IF IsSome(f.addr) /\ f.addr < 0 THEN Fail("conv-address")
      ELSE IF IsSome(f.index) /\ ~isV THEN Fail("index-on-impl")
      ELSE IF f.cc # "" /\ f.cc \notin Conventions THEN Fail("bad-cc")
      (* every calling_convention attribute is validated, whichever of them decides in the end *)
      ELSE IF HasBadExtra(f) THEN Fail("bad-cc")
      ELSE IF ~isV /\ ~IsSome(f.addr) THEN Fail("no-address")
      ELSE IF badArg THEN Fail("unresolved-param")
      ELSE IF CHECKNAMES /\ HasDupNames(NamesOf(SelectSeq(f.args, LAMBDA a : a.k = "named"))) THEN Fail("duplicate-param")
      ELSE IF f.ret # TNone /\ rret = TNone /\ ~DROPRET THEN Fail("unresolved-return")
      ELSE Ok([vis |-> f.vis, name |-> f.name, doc |-> f.doc, body |-> body,
               args |-> rargs, ret |-> rret, cc |-> cc])

(* a placeholder slot `_vfunc_<i>` (i is the 0-based slot number)          *)
PadName(i) == "_vfunc_" \o ToString(i)
PadFunc(i) ==
  [vis |-> "priv", name |-> PadName(i), doc |-> <<>>, body |-> BodyVft(PadName(i)),
   args |-> <<ArgM>>, ret |-> TNone, cc |-> "thiscall"]

RECURSIVE PadTo(_, _)
PadTo(out, n) == IF Len(out) >= n THEN out ELSE PadTo(Append(out, PadFunc(Len(out))), n)

(* The slot list: functions in source order; before a function with        *)
(* #[index(i)] the list is padded up to length i (never shrunk); at the    *)
(* end it is padded up to the declared size.                               *)
(* `CHECKIDX` = the repaired behaviour: an index below the current length, *)
(* or a declared size below the final length, is rejected.                 *)
CHECKIDX == TRUE

RECURSIVE ConvertFrom(_, _, _, _)
ConvertFrom(reg, scope, fs, out) ==
  IF fs = <<>> THEN Ok(out)
  ELSE LET f == Head(fs)
           neg == IsSome(f.index) /\ f.index < 0
           back == IsSome(f.index) /\ f.index < Len(out)
           padded == IF IsSome(f.index) THEN PadTo(out, f.index) ELSE out
           b == BuildFunction(reg, scope, TRUE, f)
       IN IF neg THEN Fail("conv-index")
          ELSE IF back /\ CHECKIDX THEN Fail("index-contradicts-position")
          ELSE IF ~b.ok THEN b
          ELSE ConvertFrom(reg, scope, Tail(fs), Append(padded, b.v))

ConvertVft(reg, scope, vft) ==
  LET c == ConvertFrom(reg, scope, vft.funcs, <<>>)
      full == IF IsSome(vft.size) THEN PadTo(c.v, vft.size) ELSE c.v
  IN IF IsSome(vft.size) /\ vft.size < 0 THEN Fail("conv-vft-size")
     ELSE IF ~c.ok THEN c
     ELSE IF IsSome(vft.size) /\ vft.size < Len(c.v) /\ CHECKIDX THEN Fail("vft-size-too-small")
     (* every slot is a field of the table: names distinct, placeholders included *)
     ELSE IF CHECKNAMES /\ HasDupNames(NamesOf(full)) THEN Fail("duplicate-vfunc")
     ELSE Ok(full)

=============================================================================
