SPECIFICATION MCSpec
CONSTANTS
  SpuriousPass = FALSE
  AllSchedules = TRUE
  PermuteModules = FALSE
  Bases = {"u8", "i8", "u16", "i16", "u32", "i32", "u64", "i64", "u128", "i128"}
  MaxVars = 3
  Markers = {0, 1, 2, 3, 9}
  Ptrs = {4, 8}
INVARIANTS Replay
CHECK_DEADLOCK FALSE
VIEW View
