SPECIFICATION MCSpec
CONSTANTS
  SpuriousPass = FALSE
  AllSchedules = TRUE
  PermuteModules = FALSE
  N = 2
  Kinds = {"val", "ptr"}
  VftTypes = {1}
  FnKinds = {}
  FnOwners = {}
  Twins = {"same", "other"}
  TwoModules = FALSE
  Ptrs = {4, 8}
INVARIANTS Inv_Passes Replay
CHECK_DEADLOCK FALSE
