------------------------------- MODULE Emit -------------------------------
(***************************************************************************)
(* The abstract content of an emitted file (backends::rust::write_module). *)
(* Items are keyed by name (the code sorts them by path; the order is not  *)
(* part of any property except determinism, which is observed on bytes).   *)
(*                                                                         *)
(* struct  [k, vis, doc, derives, packed, align, fields, sizecheck,        *)
(*          singleton, vftacc, methods, asrefs]                            *)
(* enum    [k, vis, doc, repr, derives, vars, sizecheck, singleton]        *)
(* accessor for an extern value  [name, vis, ty, addr]                     *)
(***************************************************************************)
EXTENDS Resolve

IsInternal(name) == Len(name) > 0 /\ SubSeq(name, 1, 1) = "_"

Derives(res) ==
  (IF res.copyable THEN <<"Copy">> ELSE <<>>) \o
  (IF res.cloneable THEN <<"Clone">> ELSE <<>>) \o
  (IF res.defaultable THEN <<"Default">> ELSE <<>>)

Method(f) == [name |-> f.name, vis |-> f.vis, doc |-> f.doc, args |-> f.args,
              ret |-> f.ret, body |-> f.body, cc |-> f.cc]

(* TypeDefinition::dfs_hierarchy: every base sub-object, depth first, with *)
(* the field path leading to it                                            *)
RECURSIVE Hierarchy(_, _, _, _)
Hierarchy(reg, res, prefix, fuel) ==
  IF fuel = 0 THEN <<>>
  ELSE LET bases == SelectSeq(res.regions, LAMBDA r : r.base)
           one(r) == LET bl == BaseLookup(reg, r)
                     IN IF bl.st # "ok" THEN <<>>
                        ELSE <<[path |-> Append(prefix, r.name), ty |-> r.ty]>>
                             \o Hierarchy(reg, bl.res, Append(prefix, r.name), fuel - 1)
       IN Flatten([i \in DOMAIN bases |-> one(bases[i])])

AsRefs(reg, res) ==
  LET h == Hierarchy(reg, res, <<>>, 8)
  IN [i \in DOMAIN h |->
        [ty |-> h[i].ty, path |-> h[i].path,
         conflict |-> \E j \in DOMAIN h : j # i /\ h[j].ty = h[i].ty]]

EmitStruct(reg, item) ==
  LET res == item.res
  IN [k |-> "struct", vis |-> item.vis, doc |-> res.doc, derives |-> Derives(res),
      packed |-> res.packed, align |-> IF res.packed THEN None ELSE res.align,
      fields |-> [i \in DOMAIN res.regions |->
                    [name |-> res.regions[i].name, vis |-> res.regions[i].vis,
                     doc |-> res.regions[i].doc, ty |-> res.regions[i].ty]],
      sizecheck |-> IF res.size > 0 THEN res.size ELSE None,
      singleton |-> res.singleton,
      vftacc |-> [has |-> res.vft.has, via |-> res.vft.baseField, ty |-> res.vft.ty],
      methods |-> SeqMap(Method, SelectSeq(res.afuncs, LAMBDA f : ~IsInternalFn(f)))
                  \o SeqMap(Method, SelectSeq(res.vft.funcs, LAMBDA f : ~IsInternalFn(f))),
      asrefs |-> AsRefs(reg, res)]

EmitEnum(item) ==
  LET res == item.res
  IN [k |-> "enum", vis |-> item.vis, doc |-> res.doc, repr |-> res.ty,
      derives |-> Derives(res),
      vars |-> [i \in DOMAIN res.vars |->
                  [name |-> res.vars[i].name, val |-> res.vars[i].val,
                   dflt |-> IsSome(res.dflt) /\ res.dflt = i - 1]],
      sizecheck |-> IF res.size > 0 THEN res.size ELSE None,
      singleton |-> res.singleton]

EmitItem(reg, p) ==
  IF reg[p].res.k = "enum" THEN EmitEnum(reg[p]) ELSE EmitStruct(reg, reg[p])

(* only the blocks of the `rust` backend, prologues and epilogues each in  *)
(* source order                                                            *)
(* a braced block may state a second prologue (`pro2`).  CHECKBLOCKS (named deviation, C14): TRUE = the repaired *)
(* behaviour, every text of the block is kept in source order; FALSE = the parser keeps the last one only         *)
CHECKBLOCKS == TRUE
BlockTexts(b, which) ==
  IF which = "epi" THEN <<b.epi>>
  ELSE IF "pro2" \in DOMAIN b THEN (IF CHECKBLOCKS THEN <<b.pro, b.pro2>> ELSE <<b.pro2>>)
  ELSE <<b.pro>>
Texts(m, which) ==
  LET bs == SelectSeq(m.backs, LAMBDA b : b.name = "rust")
      ts == Flatten([i \in DOMAIN bs |-> BlockTexts(bs[i], which)])
  IN SelectSeq(ts, LAMBDA t : t # NoText)
(* what the description states (the declarative side of C14: "each complete and in source order") *)
DeclTexts(m, which) ==
  LET bs == SelectSeq(m.backs, LAMBDA b : b.name = "rust")
      ts == Flatten([i \in DOMAIN bs |-> IF which = "pro" /\ "pro2" \in DOMAIN bs[i] THEN <<bs[i].pro, bs[i].pro2>>
                                         ELSE IF which = "pro" THEN <<bs[i].pro>> ELSE <<bs[i].epi>>])
  IN SelectSeq(ts, LAMBDA t : t # NoText)

EmitModule(reg, ptr, m, defs) ==
  LET emitted == {p \in defs : Has(reg, p) /\ reg[p].cat \in {"def", "vft"}}
      names == {Last(p) : p \in emitted}
  IN [path |-> m.path, doc |-> m.doc,
      pro |-> Texts(m, "pro"), epi |-> Texts(m, "epi"),
      items |-> [n \in names |-> EmitItem(reg, Join(m.path, n))],
      evals |-> [i \in DOMAIN m.evals |->
                   [name |-> m.evals[i].name, vis |-> m.evals[i].vis,
                    ty |-> ResolveTy(reg, ScopeOf(m), m.evals[i].ty),
                    addr |-> m.evals[i].addr]]]

=============================================================================
