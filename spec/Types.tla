------------------------------- MODULE Types -------------------------------
(***************************************************************************)
(* The type registry (semantic::type_registry::TypeRegistry), the built-in *)
(* table, name resolution in a scope, and size/alignment of resolved types.*)
(*                                                                         *)
(* reg : a function  path -> item,                                         *)
(*   item = [cat : "pre" | "ext" | "def" | "vft",  st : "U" | "R",         *)
(*           vis, src, res]                                                *)
(*   src  = <<module index, definition index>> of the declaration the      *)
(*          entry stands for (<<0,0>> for built-ins, <<mi, -ei>> for       *)
(*          extern types, <<mi, di>> for definitions; generated vftable    *)
(*          items carry the src of their owner)                            *)
(*   res  = the resolved record (ResNone while unresolved)                 *)
(***************************************************************************)
EXTENDS Base

Builtins == <<
  <<"void", 0>>, <<"bool", 1>>, <<"u8", 1>>, <<"u16", 2>>, <<"u32", 4>>,
  <<"u64", 8>>, <<"u128", 16>>, <<"i8", 1>>, <<"i16", 2>>, <<"i32", 4>>,
  <<"i64", 8>>, <<"i128", 16>>, <<"f32", 4>>, <<"f64", 8>> >>
BuiltinNames == {Builtins[i][1] : i \in DOMAIN Builtins}
BuiltinSize(n) == (CHOOSE i \in DOMAIN Builtins : Builtins[i][1] = n)
IntBases == {"u8","u16","u32","u64","u128","i8","i16","i32","i64","i128"}

(* named deviation (C14): TRUE = the repaired behaviour, a second declaration of a path is an *)
(* error instead of a silent overwrite                                                        *)
CHECKDUP == TRUE

(* named deviation (C13/C14): TRUE = the repaired behaviour, names that stand for the same Rust      *)
(* identifier inside one namespace (fields, cases, slots, parameters, methods and the generated     *)
(* accessors, extern values, the types of a module modulo `r#`) are an error                        *)
CHECKNAMES == TRUE

(* named deviations (C13): TRUE = the repaired behaviour                                            *)
CHECKDERIVE == TRUE      \* a copyable / cloneable type whose by-value field (of an emitted type) is not, is an error
CHECKEMPTYENUM == TRUE   \* an enum without cases is an error (`repr(int)` needs one)
(* named deviation (C05/C10): FALSE = what the code does: of several impl blocks of one type only the last *)
(* counts, and an impl block that names no type of its module is dropped silently; TRUE = the repaired     *)
(* behaviour: the functions of all blocks count, in source order; an orphan block is an error              *)
CHECKIMPLS == TRUE
(* named deviation (C13): FALSE = what the code does: a base function whose name is taken is exposed as <field>_<name> *)
(* even when that name is taken as well (the derived type then defines it twice); TRUE = that is an error             *)
CHECKRENAME == TRUE
(* named deviation (C15): FALSE = what the code does: a negative address on an extern value, or a negative singleton *)
(* address on an enum, is cast (`as usize`) and wraps; TRUE = it is an error, as it already is for a type's singleton *)
CHECKNEGADDR == TRUE

ResNone == [k |-> "none"]
NoVftRes == [has |-> FALSE, funcs |-> <<>>, baseField |-> "", ty |-> TNone]

(* resolved record of a struct-like item *)
TypeRes(size, align, regions, vft, afuncs, d) ==
  [k |-> "type", size |-> size, align |-> align, regions |-> regions,
   vft |-> vft, afuncs |-> afuncs, doc |-> d.doc, singleton |-> d.singleton,
   copyable |-> d.copyable, cloneable |-> d.cloneable \/ d.copyable,
   defaultable |-> d.defaultable, packed |-> d.packed]

PlainFlags(flag) ==
  [doc |-> <<>>, singleton |-> None, copyable |-> flag, cloneable |-> flag,
   defaultable |-> flag, packed |-> FALSE]

BuiltinItem(size) ==
  [cat |-> "pre", st |-> "R", vis |-> "pub", src |-> <<0, 0>>,
   res |-> TypeRes(size, Max(size, 1), <<>>, NoVftRes, <<>>, PlainFlags(TRUE))]

ExternItem(mi, ei, e) ==
  [cat |-> "ext", st |-> "R", vis |-> "pub", src |-> <<mi, 0 - ei>>,
   res |-> TypeRes(e.size, e.align, <<>>, NoVftRes, <<>>, PlainFlags(FALSE))]

UnresolvedItem(mi, di, d) ==
  [cat |-> "def", st |-> "U", vis |-> d.vis, src |-> <<mi, di>>, res |-> ResNone]

InitialReg ==
  [p \in {<<n>> : n \in BuiltinNames} |->
     BuiltinItem(Builtins[CHOOSE i \in DOMAIN Builtins : Builtins[i][1] = p[1]][2])]

(* HashMap::insert: a new key is added, an existing key is overwritten.    *)
RegPut(reg, p, item) ==
  [q \in (DOMAIN reg) \cup {p} |-> IF q = p THEN item ELSE reg[q]]

Has(reg, p) == p \in DOMAIN reg
IsResolved(reg, p) == Has(reg, p) /\ reg[p].st = "R"
Unresolved(reg) == {p \in DOMAIN reg : reg[p].cat # "pre" /\ reg[p].st = "U"}
ResolvedNonPre(reg) == {p \in DOMAIN reg : reg[p].cat # "pre" /\ reg[p].st = "R"}

(* ------------------------- name resolution ----------------------------- *)
(* TypeRegistry::resolve_string.  `scope` = <<own module>> \o uses.        *)
(* Entries of the scope that are *currently* registry keys are type        *)
(* imports (last one with the right final segment wins); the others are    *)
(* module imports, searched after the root module, in order.               *)
ResolveName(reg, scope, name) ==
  LET isTy(i) == i # 1 /\ Has(reg, scope[i])     \* scope[1] is the module itself: always a module (fix F21)
      tyHit == {i \in DOMAIN scope : isTy(i) /\ scope[i] # <<>> /\ Last(scope[i]) = name}
      modIdx == {i \in DOMAIN scope : ~isTy(i)}
      modHit == {i \in modIdx : Has(reg, Join(scope[i], name))}
  IN IF tyHit # {} THEN RRaw(scope[CHOOSE i \in tyHit : \A j \in tyHit : j <= i])
     ELSE IF Has(reg, <<name>>) THEN RRaw(<<name>>)
     ELSE IF modHit # {}
          THEN RRaw(Join(scope[CHOOSE i \in modHit : \A j \in modHit : i <= j], name))
          ELSE TNone

RECURSIVE ResolveTy(_, _, _)
ResolveTy(reg, scope, ty) ==
  CASE ty.k = "nm"   -> ResolveName(reg, scope, ty.n)
    [] ty.k = "unk"  -> RArr(RRaw(<<"u8">>), ty.len)
    [] ty.k = "none" -> TNone
    [] OTHER ->
         LET inner == ResolveTy(reg, scope, ty.t)
         IN IF inner = TNone THEN TNone
            ELSE IF ty.k = "arr" THEN RArr(inner, ty.len)
            ELSE [k |-> ty.k, t |-> inner]

(* --------------------------- size, alignment --------------------------- *)
RECURSIVE SizeOf(_, _, _)
SizeOf(reg, ptr, rt) ==
  CASE rt.k = "raw" -> IF IsResolved(reg, rt.p) THEN reg[rt.p].res.size ELSE None
    [] rt.k = "arr" -> LET s == SizeOf(reg, ptr, rt.t)
                       IN IF s = None THEN None ELSE s * rt.len
    [] rt.k \in {"cptr", "mptr", "fn"} -> ptr
    [] OTHER -> None

RECURSIVE AlignOf(_, _, _)
AlignOf(reg, ptr, rt) ==
  CASE rt.k = "raw" -> IF IsResolved(reg, rt.p) THEN reg[rt.p].res.align ELSE None
    [] rt.k = "arr" -> AlignOf(reg, ptr, rt.t)
    [] rt.k \in {"cptr", "mptr", "fn"} -> ptr
    [] OTHER -> None

=============================================================================
