SPECIFICATION MCSpec
CONSTANTS
  SpuriousPass = FALSE
  AllSchedules = FALSE
  PermuteModules = FALSE
  TypeNames = {"X", "u16", "void", "u8"}
  DefSets <- AllDefSets
  UseSeqs <- Q2UseSeqs
  Perts <- NoPerts
  Ptrs = {4}
INVARIANTS Replay
CHECK_DEADLOCK FALSE
VIEW View
