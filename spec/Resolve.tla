------------------------------ MODULE Resolve ------------------------------
(***************************************************************************)
(* One resolution attempt on one item: the mirror of                       *)
(*   semantic::type_definition::build  (+ resolve_regions, vftable::build) *)
(*   semantic::enum_definition::build                                      *)
(* The order of the sub-steps is the order of the code, because it is      *)
(* observable: which of "defer" and "fail" an attempt reports, and whether *)
(* the generated <T>Vftable item has been inserted when it defers.         *)
(*                                                                         *)
(* An attempt yields                                                       *)
(*   [r : "ok" | "defer" | "fail", res, ins, why]                          *)
(* where `ins` is the sequence of <<path, item>> registry insertions the   *)
(* attempt performs as a side effect (they persist even when r = "defer"). *)
(***************************************************************************)
EXTENDS Function

(* ---- named deviations of the code from the properties (section 4 of     *)
(* DESIGN.md).  TRUE = the repaired behaviour.                             *)
CHECKPOW2 == TRUE    \* reject an alignment that is not a power of two (C03; fix: commit in /repo)
CHECKENUMRANGE == FALSE \* reject a discriminant outside the base type (C08)
CHECKENUMBASE == TRUE   \* reject an enum whose base is not a primitive integer type (C13/C08; fix F22)

HexDigits == <<"0","1","2","3","4","5","6","7","8","9","a","b","c","d","e","f">>
RECURSIVE Hex(_)
Hex(n) == IF n < 16 THEN HexDigits[n + 1] ELSE Hex(n \div 16) \o HexDigits[(n % 16) + 1]

Region(name, vis, doc, ty, base) ==
  [name |-> name, vis |-> vis, doc |-> doc, ty |-> ty, base |-> base]
PadRegion(n) == Region("", "priv", <<>>, RArr(RRaw(<<"u8">>), n), FALSE)

Defer(ins)      == [r |-> "defer", res |-> ResNone, ins |-> ins, why |-> ""]
FailA(why, ins) == [r |-> "fail",  res |-> ResNone, ins |-> ins, why |-> why]
Done(res, ins)  == [r |-> "ok",    res |-> res,     ins |-> ins, why |-> ""]

ScopeOf(m) == <<m.path>> \o m.uses

(* the impl block consulted for a type: Module::new collects the blocks    *)
(* into a map keyed by name, so the last block of a name wins              *)
ImplFuncs(m, name) ==
  LET i == LastIdx(m.impls, LAMBDA b : b.name = name)
      mine == SelectSeq(m.impls, LAMBDA b : b.name = name)
  IN IF CHECKIMPLS THEN Flatten([k \in DOMAIN mine |-> mine[k].funcs])
     ELSE IF i = 0 THEN <<>> ELSE m.impls[i].funcs
(* an impl block whose name is no type definition of the module *)
ImplOrphan(m) == \E i \in DOMAIN m.impls : ~\E j \in DOMAIN m.defs : m.defs[j].name = m.impls[i].name /\ m.defs[j].k = "type"

(* ------------------------ statement scan ------------------------------- *)
(* Fields in source order: a negative address fails, the first             *)
(* unresolvable type name defers.  `_` fields become unnamed regions.      *)
RECURSIVE ScanFields(_, _, _, _)
ScanFields(reg, scope, fs, acc) ==
  IF fs = <<>> THEN [st |-> "ok", pend |-> acc, why |-> ""]
  ELSE LET f == Head(fs)
           rt == ResolveTy(reg, scope, f.ty)
       IN IF IsSome(f.addr) /\ f.addr < 0 THEN [st |-> "fail", pend |-> acc, why |-> "conv-address"]
          ELSE IF rt = TNone THEN [st |-> "defer", pend |-> acc, why |-> ""]
          ELSE ScanFields(reg, scope, Tail(fs),
                 Append(acc, [addr |-> f.addr,
                              reg |-> Region(IF f.name = "_" THEN "" ELSE f.name,
                                             f.vis, f.doc, rt, f.base)]))

(* ------------------------- region placement ---------------------------- *)
PushRegion(reg, ptr, acc, r) ==
  IF acc.st # "ok" THEN acc
  ELSE LET s == SizeOf(reg, ptr, r.ty)
       IN IF s = None THEN [acc EXCEPT !.st = "defer"]
          ELSE IF s = 0 /\ r.ty.k = "arr" THEN acc      \* zero-sized arrays are dropped
          ELSE [acc EXCEPT !.regions = Append(@, r), !.last = @ + s]

PlaceField(reg, ptr, acc, a, r) ==
  IF acc.st # "ok" THEN acc
  ELSE IF IsSome(a) /\ a < acc.last THEN [acc EXCEPT !.st = "fail", !.why = "overlap"]
  ELSE PushRegion(reg, ptr,
         IF IsSome(a) THEN PushRegion(reg, ptr, acc, PadRegion(a - acc.last)) ELSE acc, r)

RECURSIVE PlaceAll(_, _, _, _)
PlaceAll(reg, ptr, acc, pend) ==
  IF pend = <<>> THEN acc
  ELSE PlaceAll(reg, ptr, PlaceField(reg, ptr, acc, Head(pend).addr, Head(pend).reg), Tail(pend))

(* give unnamed regions their `_field_<offset in hex>` name; they become   *)
(* private, undocumented and lose the base flag                            *)
RECURSIVE NameRegions(_, _, _, _, _)
NameRegions(reg, ptr, rs, off, out) ==
  IF rs = <<>> THEN out
  ELSE LET r == Head(rs)
           r2 == IF r.name = "" THEN Region("_field_" \o Hex(off), "priv", <<>>, r.ty, FALSE) ELSE r
       IN NameRegions(reg, ptr, Tail(rs), off + SizeOf(reg, ptr, r.ty), Append(out, r2))

(* ------------------------------ vftable -------------------------------- *)
FuncToRegion(p, f) ==
  Region(f.name, f.vis, f.doc,
         RFn(f.cc,
             [i \in DOMAIN f.args |->
                IF f.args[i].k = "cself" THEN [name |-> "this", ty |-> RCPtr(RRaw(p))]
                ELSE IF f.args[i].k = "mself" THEN [name |-> "this", ty |-> RMPtr(RRaw(p))]
                ELSE [name |-> f.args[i].name, ty |-> f.args[i].ty]],
             f.ret),
         FALSE)

VftPath(p) == Join(Parent(p), Last(p) \o "Vftable")

VftItem(reg, ptr, p, vis, src, funcs) ==
  [cat |-> "vft", st |-> "R", vis |-> vis, src |-> src,
   res |-> TypeRes(Len(funcs) * ptr, ptr, [i \in DOMAIN funcs |-> FuncToRegion(p, funcs[i])],
                   NoVftRes, <<>>, PlainFlags(FALSE))]

(* get_region_name_and_type_definition on a base region:                   *)
(*   [st : "ok" | "none" | "fail", name, res, why]                         *)
BaseLookup(reg, r) ==
  IF r.name = "" THEN [st |-> "fail", name |-> "", res |-> ResNone, why |-> "panic-unnamed-base"]
  ELSE IF r.ty.k # "raw" THEN [st |-> "fail", name |-> r.name, res |-> ResNone, why |-> "base-not-raw"]
  ELSE IF ~IsResolved(reg, r.ty.p) THEN [st |-> "none", name |-> r.name, res |-> ResNone, why |-> ""]
  ELSE IF reg[r.ty.p].res.k # "type" THEN [st |-> "fail", name |-> r.name, res |-> ResNone, why |-> "base-is-enum"]
  ELSE [st |-> "ok", name |-> r.name, res |-> reg[r.ty.p].res, why |-> ""]

(* vftable::build.  Result [st, vft, region (or NoRegion), ins, why]       *)
NoRegion == [name |-> "\n"]
BuildVft(reg, ptr, p, vis, src, pend, own, declared) ==   \* own = [has, funcs]; declared: the module declares an item of the generated name
  LET bi == FirstIdx(pend, LAMBDA x : x.reg.base)
      ins == IF own.has THEN <<<<VftPath(p), VftItem(reg, ptr, p, vis, src, own.funcs)>>>> ELSE <<>>
      reg2 == IF own.has THEN RegPut(reg, ins[1][1], ins[1][2]) ELSE reg
      bl == IF bi = 0 THEN [st |-> "none", name |-> "", res |-> ResNone, why |-> ""]
            ELSE BaseLookup(reg2, pend[bi].reg)
      bvf == bl.st = "ok" /\ bl.res.vft.has
      ptrTy == RCPtr(RRaw(VftPath(p)))
      R(st, vft, region, why) == [st |-> st, vft |-> vft, region |-> region, ins |-> ins, why |-> why]
      collides == own.has /\ (declared \/ (Has(reg, VftPath(p)) /\ reg[VftPath(p)] # ins[1][2]))
  IN IF CHECKDUP /\ collides THEN [st |-> "fail", vft |-> NoVftRes, region |-> NoRegion, ins |-> <<>>, why |-> "vftable-name-collision"]
     ELSE IF bl.st = "fail" THEN R("fail", NoVftRes, NoRegion, bl.why)
     ELSE IF own.has THEN
       IF bvf THEN
         LET bf == bl.res.vft.funcs
         IN IF Len(own.funcs) < Len(bf) THEN R("fail", NoVftRes, NoRegion, "vft-missing-base-funcs")
            ELSE IF \E i \in DOMAIN bf : bf[i] # own.funcs[i]
                 THEN R("fail", NoVftRes, NoRegion, "vft-base-mismatch")
            ELSE R("ok", [has |-> TRUE, funcs |-> own.funcs, baseField |-> bl.name, ty |-> ptrTy],
                   NoRegion, "")
       ELSE R("ok", [has |-> TRUE, funcs |-> own.funcs, baseField |-> "", ty |-> ptrTy],
              Region("vftable", "priv", <<>>, ptrTy, FALSE), "")
     ELSE IF bvf THEN
       R("ok", [has |-> TRUE, funcs |-> bl.res.vft.funcs, baseField |-> bl.name, ty |-> bl.res.vft.ty],
         NoRegion, "")
     ELSE R("ok", NoVftRes, NoRegion, "")

(* ------------------- associated functions (C07) ------------------------ *)
(* the key under which a function name is recorded as taken: the Rust identifier it stands for *)
UName(n) == IF CHECKNAMES THEN Plain(n) ELSE n
(* add_functions: public functions of a base, renamed <field>_<name> when  *)
(* the name is taken, forwarding to the base field                         *)
RECURSIVE AddFuncs(_, _, _)
AddFuncs(acc, bname, fs) ==   \* acc = [used, out, st, why]
  IF fs = <<>> \/ acc.st # "ok" THEN acc
  ELSE LET f == Head(fs)
       IN IF f.vis # "pub" \/ (CHECKFWD /\ IsInternalFn(f)) THEN AddFuncs(acc, bname, Tail(fs))
          ELSE LET taken == UName(f.name) \in acc.used
                   nm == IF taken THEN bname \o "_" \o Plain(f.name) ELSE f.name
                   g == [f EXCEPT !.name = nm, !.body = BodyField(bname, f.name)]
               IN IF CHECKRENAME /\ taken /\ UName(nm) \in acc.used
                  THEN [acc EXCEPT !.st = "fail", !.why = "rename-collision"]
                  ELSE AddFuncs([acc EXCEPT !.used = @ \cup {UName(nm)}, !.out = Append(@, g)], bname, Tail(fs))

RECURSIVE InjectBases(_, _, _, _)
InjectBases(reg, bases, i, acc) ==   \* acc = [st, used, out, why]
  IF bases = <<>> \/ acc.st # "ok" THEN acc
  ELSE LET bl == BaseLookup(reg, Head(bases))
       IN IF bl.st = "fail" THEN [acc EXCEPT !.st = "fail", !.why = bl.why]
          ELSE IF bl.st = "none" THEN InjectBases(reg, Tail(bases), i + 1, acc)
          ELSE LET a1 == AddFuncs(acc, bl.name, bl.res.afuncs)
                   a2 == IF i > 0 /\ bl.res.vft.has
                         THEN AddFuncs(a1, bl.name, bl.res.vft.funcs) ELSE a1
               IN InjectBases(reg, Tail(bases), i + 1, a2)

RECURSIVE AddImpl(_, _, _, _)
AddImpl(reg, scope, fs, acc) ==
  IF fs = <<>> \/ acc.st # "ok" THEN acc
  ELSE LET f == Head(fs)
           b == BuildFunction(reg, scope, FALSE, f)
       IN IF UName(f.name) \in acc.used THEN [acc EXCEPT !.st = "fail", !.why = "duplicate-function"]
          ELSE IF ~b.ok THEN [acc EXCEPT !.st = "fail", !.why = b.why]
          ELSE AddImpl(reg, scope, Tail(fs),
                       [acc EXCEPT !.used = @ \cup {UName(f.name)}, !.out = Append(@, b.v)])

(* ---------------------------- defaultable ------------------------------ *)
RECURSIVE DefaultPath(_)
DefaultPath(rt) == IF rt.k = "raw" THEN rt.p
                   ELSE IF rt.k = "arr" THEN DefaultPath(rt.t) ELSE <<>>

ResDefaultable(res) ==
  IF res.k = "type" THEN res.defaultable ELSE res.defaultable /\ IsSome(res.dflt)

DefaultableProblem(reg, regions) ==
  \E i \in DOMAIN regions :
     LET pth == DefaultPath(regions[i].ty)
     IN pth = <<>> \/ (IsResolved(reg, pth) /\ ~ResDefaultable(reg[pth].res))

(* derive(Copy) / derive(Clone) need every field to have them; checked for the types pyxis emits *)
DeriveProblem(reg, regions, d) ==
  (d.copyable \/ d.cloneable) /\
  \E i \in DOMAIN regions :
     LET pth == DefaultPath(regions[i].ty)
     IN pth # <<>> /\ IsResolved(reg, pth) /\ reg[pth].cat \in {"def", "vft"}
        /\ ((d.copyable /\ ~reg[pth].res.copyable) \/ ~reg[pth].res.cloneable)

(* ------------------------------ alignment ------------------------------ *)
RECURSIVE LcmSeq(_, _)
LcmSeq(s, acc) == IF s = <<>> THEN acc
                  ELSE LcmSeq(Tail(s), (acc * Head(s)) \div Gcd(acc, Head(s)))

RECURSIVE Offsets(_, _, _, _)
Offsets(reg, ptr, rs, off) ==
  IF rs = <<>> THEN <<>> ELSE <<off>> \o Offsets(reg, ptr, Tail(rs), off + SizeOf(reg, ptr, Head(rs).ty))

(* ----------------------------- the attempt ----------------------------- *)
AttemptType(reg, ptr, m, src, p, d) ==
  LET scope == ScopeOf(m)
      negAttr == (IsSome(d.size) /\ d.size < 0) \/ (IsSome(d.singleton) /\ d.singleton < 0)
                 \/ (IsSome(d.align) /\ d.align < 0)
      pre == IF d.vft.has THEN ScanFields(reg, scope, SubSeq(d.fields, 1, d.vft.pos), <<>>)
             ELSE [st |-> "ok", pend |-> <<>>, why |-> ""]
      conv == IF d.vft.has THEN ConvertVft(reg, scope, d.vft) ELSE Ok(<<>>)
      scan == ScanFields(reg, scope, d.fields, <<>>)
  IN
  IF negAttr THEN FailA("conv-attr", <<>>)
  ELSE IF pre.st = "defer" THEN Defer(<<>>)
  ELSE IF pre.st = "fail" THEN FailA(pre.why, <<>>)
  ELSE IF d.vft.has /\ d.vft.pos > 0 THEN FailA("vftable-not-first", <<>>)
  ELSE IF ~conv.ok THEN FailA(conv.why, <<>>)
  ELSE IF scan.st = "defer" THEN Defer(<<>>)
  ELSE IF scan.st = "fail" THEN FailA(scan.why, <<>>)
  ELSE
  (* fix F15: the decision who owns the vftable pointer waits for the first base *)
  LET fb == FirstIdx(scan.pend, LAMBDA x : x.reg.base)
      baseUnresolved == fb # 0 /\ scan.pend[fb].reg.ty.k = "raw" /\ Has(reg, scan.pend[fb].reg.ty.p)
                        /\ ~IsResolved(reg, scan.pend[fb].reg.ty.p)
  IN IF baseUnresolved THEN Defer(<<>>) ELSE
  LET (* a declaration of the generated name in the module conflicts whatever its state of resolution *)
      declared == CHECKNAMES /\ \E n \in Range(NamesOf(m.defs) \o NamesOf(m.exts)) : Plain(n) = Plain(d.name \o "Vftable")
      bv == BuildVft(reg, ptr, p, d.vis, src, scan.pend, [has |-> d.vft.has, funcs |-> conv.v], declared)
      reg2 == IF bv.ins = <<>> THEN reg ELSE RegPut(reg, bv.ins[1][1], bv.ins[1][2])
      acc0 == [st |-> "ok", regions |-> <<>>, last |-> 0, why |-> ""]
      acc1 == IF bv.st = "ok" /\ bv.region # NoRegion THEN PushRegion(reg2, ptr, acc0, bv.region) ELSE acc0
      acc2 == PlaceAll(reg2, ptr, acc1, scan.pend)
      acc3 == IF acc2.st = "ok" /\ IsSome(d.size) /\ acc2.last < d.size
              THEN PushRegion(reg2, ptr, acc2, PadRegion(d.size - acc2.last)) ELSE acc2
  IN
  IF bv.st = "fail" THEN FailA(bv.why, bv.ins)
  ELSE IF acc3.st = "defer" THEN Defer(bv.ins)
  ELSE IF acc3.st = "fail" THEN FailA(acc3.why, bv.ins)
  ELSE
  LET regions == NameRegions(reg2, ptr, acc3.regions, 0, <<>>)
      size == acc3.last
      usedF == IF bv.vft.has THEN {UName(bv.vft.funcs[i].name) : i \in DOMAIN bv.vft.funcs} ELSE {}
      (* the generated accessors are functions of the type as well *)
      accessors == IF CHECKNAMES THEN (IF bv.vft.has THEN {"vftable"} ELSE {}) \cup (IF IsSome(d.singleton) THEN {"get"} ELSE {})
                   ELSE {}
      usedV == usedF \cup accessors
      inj == InjectBases(reg2, SelectSeq(regions, LAMBDA r : r.base), 0,
                         [st |-> "ok", used |-> usedV, out |-> <<>>, why |-> ""])
      imp == AddImpl(reg2, scope, ImplFuncs(m, d.name), inj)
      ralign == [i \in DOMAIN regions |-> AlignOf(reg2, ptr, regions[i].ty)]
      offs == Offsets(reg2, ptr, regions, 0)
      alignment == IF d.packed THEN 1
                   ELSE IF IsSome(d.align) THEN d.align
                   ELSE IF Len(regions) = 1 THEN ralign[1] ELSE ptr
      required == LcmSeq(ralign, 1)
  IN
  IF IsSome(d.size) /\ size # d.size THEN FailA("size-mismatch", bv.ins)
  ELSE IF CHECKNAMES /\ HasDupNames(NamesOf(regions)) THEN FailA("duplicate-field", bv.ins)
  ELSE IF usedF \cap accessors # {} THEN FailA("vfunc-named-like-accessor", bv.ins)
  ELSE IF inj.st = "fail" THEN FailA(inj.why, bv.ins)
  ELSE IF imp.st = "fail" THEN FailA(imp.why, bv.ins)
  ELSE IF d.defaultable /\ DefaultableProblem(reg2, regions) THEN FailA("not-defaultable", bv.ins)
  ELSE IF CHECKDERIVE /\ DeriveProblem(reg2, regions, d) THEN FailA("not-copyable", bv.ins)
  ELSE IF d.packed /\ IsSome(d.align) THEN FailA("packed-and-align", bv.ins)
  ELSE IF ~d.packed /\ CHECKPOW2 /\ ~IsPow2(alignment) THEN FailA("align-not-pow2", bv.ins)
  ELSE IF ~d.packed /\ required > alignment THEN FailA("align-below-required", bv.ins)
  ELSE IF ~d.packed /\ (\E i \in DOMAIN regions : offs[i] % ralign[i] # 0)
       THEN FailA("field-unaligned", bv.ins)
  ELSE IF ~d.packed /\ size % alignment # 0 THEN FailA("size-not-multiple-of-align", bv.ins)
  ELSE Done(TypeRes(size, alignment, regions, bv.vft, imp.out, d), bv.ins)

(* ------------------------------- enums --------------------------------- *)
(* <<min, max>> of an integer base type, as symbolic integers               *)
IntRange(base) ==
  CASE base = "u8"   -> <<Num("0", 0), Num("u8max", 0)>>
    [] base = "i8"   -> <<Num("i8min", 0), Num("i8max", 0)>>
    [] base = "u16"  -> <<Num("0", 0), Num("u16max", 0)>>
    [] base = "i16"  -> <<Num("i16min", 0), Num("i16max", 0)>>
    [] base = "u32"  -> <<Num("0", 0), Num("u32max", 0)>>
    [] base = "i32"  -> <<Num("i32min", 0), Num("i32max", 0)>>
    [] base = "u64"  -> <<Num("0", 0), Num("u64max", 0)>>
    [] base = "i64"  -> <<Num("i64min", 0), Num("i64max", 0)>>
    [] base = "u128" -> <<Num("0", 0), Num("u128max", 0)>>
    [] OTHER         -> <<Num("i128min", 0), Num("i128max", 0)>>
NumFits(base, x) == NumLE(IntRange(base)[1], x) /\ NumLE(x, IntRange(base)[2])
(* the values the parser and the discriminant counter can hold (isize)     *)
FitsIsize(x) == NumFits("i64", x)

RECURSIVE EnumValues(_, _, _)
EnumValues(vars, next, out) ==
  IF vars = <<>> THEN out
  ELSE LET v == IF Head(vars).val # NumNone THEN Head(vars).val ELSE next
       IN EnumValues(Tail(vars), NumSucc(v), Append(out, [name |-> Head(vars).name, val |-> v]))

EnumRes(size, align, ty, vals, dflt, d) ==
  [k |-> "enum", size |-> size, align |-> align, ty |-> ty, vars |-> vals, dflt |-> dflt,
   doc |-> d.doc, singleton |-> d.singleton, copyable |-> d.copyable,
   cloneable |-> d.cloneable \/ d.copyable, defaultable |-> d.defaultable]

AttemptEnum(reg, ptr, m, p, d) ==
  LET scope == ScopeOf(m)
      ty == ResolveTy(reg, scope, d.base)
      size == IF ty = TNone THEN None ELSE SizeOf(reg, ptr, ty)
      vals == EnumValues(d.vars, NumInt(0), <<>>)
      marks == {i \in DOMAIN d.vars : d.vars[i].dflt}
      dflt == IF marks = {} THEN None ELSE (CHOOSE i \in marks : \A j \in marks : i <= j) - 1
      isInt == ty.k = "raw" /\ Len(ty.p) = 1 /\ ty.p[1] \in IntBases
      outOfRange == isInt /\ \E i \in DOMAIN vals : ~NumFits(ty.p[1], vals[i].val)
      (* the counter is an isize: writing a value past it cannot be parsed, and stepping *)
      (* past isize::MAX must be an error, not an overflow                               *)
      counterOverflow == \E i \in DOMAIN vals : ~FitsIsize(vals[i].val)
  IN IF ty = TNone THEN Defer(<<>>)
     ELSE IF CHECKENUMBASE /\ ~isInt THEN FailA("enum-base-not-integer", <<>>)
     ELSE IF size = None THEN Defer(<<>>)
     ELSE IF HasRawValue(d.vars) THEN FailA("unsupported-enum-value", <<>>)
     ELSE IF CHECKNAMES /\ HasDupNames(NamesOf(d.vars)) THEN FailA("duplicate-variant", <<>>)
     ELSE IF Cardinality(marks) > 1 THEN FailA("multiple-default", <<>>)
     ELSE IF CHECKEMPTYENUM /\ d.vars = <<>> THEN FailA("empty-enum", <<>>)
     ELSE IF CHECKNEGADDR /\ IsSome(d.singleton) /\ d.singleton < 0 THEN FailA("conv-attr", <<>>)
     ELSE IF d.defaultable /\ marks = {} THEN FailA("defaultable-without-default", <<>>)
     ELSE IF ~d.defaultable /\ marks # {} THEN FailA("default-without-defaultable", <<>>)
     ELSE IF counterOverflow THEN FailA("discriminant-overflow", <<>>)
     ELSE IF CHECKENUMRANGE /\ outOfRange THEN FailA("discriminant-out-of-range", <<>>)
     ELSE Done(EnumRes(size, AlignOf(reg, ptr, ty), ty, vals, dflt, d), <<>>)

Attempt(reg, ptr, m, src, p, d) ==
  IF d.k = "type" THEN AttemptType(reg, ptr, m, src, p, d)
  ELSE AttemptEnum(reg, ptr, m, p, d)

=============================================================================
