------------------------------ MODULE MC_Impl ------------------------------
(***************************************************************************)
(* Impl blocks (C05) and accessors (C15).                                  *)
(* type T (optionally with a base B exposing `tick`), an impl block with   *)
(* one or two address-bound functions: receiver none/const/mut, 0..MaxP    *)
(* parameters from a palette (one of them possibly of an undefined type),  *)
(* return none / scalar / pointer / undefined, address absent or present;  *)
(* the second function distinct, a duplicate of the first, or named like   *)
(* the base's function.  Plus a singleton type, a singleton enum and       *)
(* extern values of scalar / pointer / array / struct type with and        *)
(* without address.                                                        *)
(***************************************************************************)
EXTENDS Pyxis, Props, Json

CONSTANTS MaxP, Recvs, Rets, Addrs, Seconds, Bad, Singles, EvalKinds, Ptrs

QAddrs == {None, 0, 327680, 2147418112}
TAddrs == {None, 0, 1, 327680, 65535, 2147418112}

PTypes == <<TNm("u32"), TCPtr(TNm("u8")), TNm("i64"), TMPtr(TNm("T")), TNm("u8"), TNm("f32")>>
(* the second parameter is named like the function itself and like the local of the emitted wrapper (`f`, written raw), *)
(* the fourth like the receiver of the emitted closure                                                                 *)
PNames == <<"a", "r#f", "c", "this", "e", "g">>
Missing == TCPtr(TNm("Missing"))

Params(n, bad) == [i \in 1..n |-> Arg(PNames[i], IF bad = i THEN Missing ELSE PTypes[i])]
RecvArg(r) == IF r = "const" THEN <<ArgC>> ELSE IF r = "mut" THEN <<ArgM>> ELSE <<>>
RetTy(r) == CASE r = "u32" -> TNm("u32") [] r = "ptr" -> TMPtr(TNm("T")) [] r = "missing" -> TNm("Missing")
              [] r = "pvoid" -> TMPtr(TNm("void")) [] OTHER -> TNone

F(name, recv, n, bad, ret, addr) ==
  Func(name, "pub", <<>>, RecvArg(recv) \o Params(n, bad), RetTy(ret), addr, None, "")

EvalTy(k) == CASE k \in {"scalar", "readdr"} -> TNm("u32") [] k = "ptr" -> TMPtr(TNm("T")) [] k = "arr" -> TArr(TNm("u16"), 4)
               [] k = "struct" -> TNm("T") [] OTHER -> TNm("Missing")

MkInput(ptr, recv, n, bad, ret, addr, second, single, ek, eaddr) ==
  LET B == TypeDef("B", "pub", <<Field("xb", "pub", <<>>, TCPtr(TNm("u8")), None, FALSE)>>)
      useBase == second = "inherited"
      T == [TypeDef("T", "pub", (IF useBase THEN <<Field("base", "pub", <<>>, TNm("B"), None, TRUE)>> ELSE <<>>)
                                  \o <<Field("x", "pub", <<>>, TCPtr(TNm("u8")), None, FALSE)>>)
              EXCEPT !.singleton = IF single = "type" THEN 65536 ELSE None]
      E == [EnumDef("E", "pub", TNm("u32"), <<Variant("A", NumNone, FALSE), Variant("B", NumNone, FALSE)>>)
              (* "enumnc": the singleton enum is not declared copyable *)
              (* "enumneg": a negative singleton address cannot be addressed *)
              EXCEPT !.singleton = IF single \in {"enum", "enumnc"} THEN 131072 ELSE IF single = "enumneg" THEN 0 - 8 ELSE None,
                     !.copyable = single # "enumnc"]
      f1 == F("f", recv, n, bad, ret, addr)
      f2 == CASE second = "distinct"  -> <<F("h", "mut", 1, 0, "none", 393216)>>
              [] second = "dup"       -> <<F("f", "mut", 1, 0, "none", 393216)>>
              [] second = "inherited" -> <<F("tick", "mut", 1, 0, "none", 393216)>>
              (* an #[address] written on the impl block is not an address of its functions *)
              [] second = "blockaddr" -> <<F("h", "mut", 1, 0, "none", None)>>
              (* an address attribute with two arguments is no address *)
              [] second = "twoaddr" -> <<[F("h", "mut", 1, 0, "none", None) EXCEPT !.xattrs = <<"address(0x401000, 0x4010F0)">>]>>
              (* the second function in an impl block of its own / in a block for the enum / for a name nothing defines *)
              [] second \in {"twoblocks", "implenum", "implmissing", "implenumbad"} -> <<F("h", "mut", 1, 0, "none", 393216)>>
              (* the function of the first block declared again in a second block of the type: declared twice *)
              [] second = "twoblocksdup" -> <<F("f", "mut", 1, 0, "none", 393216)>>
              [] OTHER -> <<>>
      blockOf2 == CASE second \in {"twoblocks", "twoblocksdup"} -> "T" [] second \in {"implenum", "implenumbad"} -> "E" [] second = "implmissing" -> "Nope" [] OTHER -> ""
      f2b == IF second = "implenumbad" THEN <<F("h", "mut", 1, 0, "none", None)>> ELSE f2   \* ... and without an address
      impls == (IF useBase THEN <<Impl("B", <<F("tick", "mut", 1, 0, "none", 458752)>>)>> ELSE <<>>)
               \o (IF blockOf2 # "" THEN <<Impl("T", <<f1>>), Impl(blockOf2, f2b)>>
                   ELSE <<[Impl("T", <<f1>> \o f2) EXCEPT !.battrs = IF second = "blockaddr" THEN <<"address(0x70000)">> ELSE <<>>]>>)
      evals == IF ek = "none" THEN <<>>
               ELSE IF ek = "two" THEN <<ExtVal("gv", "pub", TNm("u32"), 4096), ExtVal("hv", "pub", TMPtr(TNm("u16")), eaddr)>>
               (* the address stated twice: like every integer attribute, the last statement counts *)
               ELSE IF ek = "readdr" THEN <<ExtVal("gv", "pub", TNm("u32"), eaddr) @@ [oattrs |-> <<"address(0x3000)">>]>>
               ELSE <<ExtVal("gv", "pub", EvalTy(ek), eaddr)>>
      (* an opaque singleton: a type without storage *)
      Eng == [TypeDef("Eng", "pub", <<>>) EXCEPT !.singleton = 262144]
      (* a module that holds nothing but extern values, of types it imports *)
      globals == [Module(<<"g">>, <<<<"m">>>>, <<>>)
                    EXCEPT !.evals = <<ExtVal("root", "pub", TMPtr(TNm("T")), 589824), ExtVal("counts", "priv", TArr(TNm("u32"), 4), 589888)>>]
  IN [ptr |-> ptr,
      mods |-> (IF ek \in {"scalar", "ptr"} THEN <<globals>> ELSE <<>>) \o <<[Module(<<"m">>, <<>>, (IF single = "opaque" THEN <<Eng>> ELSE <<>>) \o (IF useBase THEN <<B>> ELSE <<>>) \o <<T, E>>)
                    EXCEPT !.impls = impls, !.evals = evals]>>]

MCInit ==
  /\ \E ptr \in Ptrs, recv \in Recvs, n \in 0..MaxP, bad \in Bad, ret \in Rets, addr \in Addrs,
        second \in Seconds, single \in Singles, ek \in EvalKinds, eaddr \in {None, 196608, 4096, 0 - 16} :
        /\ bad <= n
        (* 4096 is also the address of the first of two extern values: two views of one location *)
        /\ (eaddr = 4096 => ek = "two")
        /\ (ek = "none" => eaddr = None)
        /\ (ek = "readdr" => eaddr = 196608)
        /\ (eaddr = 0 - 16 => ek = "scalar")
        (* keep the product small: vary the accessor side only with the simplest function *)
        /\ ((single # "none" \/ ek # "none") => (n = 0 /\ ret = "none" /\ second = "none" /\ recv = "const" /\ addr = 327680))
        /\ input = MkInput(ptr, recv, n, bad, ret, addr, second, single, ek, eaddr)
  /\ InitRest

MCSpec == MCInit /\ [][Next]_vars /\ WF_vars(Next)

(* ------------------------------ the oracle ----------------------------- *)
Crate == [ptr |-> input.ptr, files |-> out, exts |-> ExtMap(input), real |-> <<>>]
M == input.mods[Len(input.mods)]     \* the module `m` is the last one
G == input.mods[1]
HasGlobals == Len(input.mods) = 2

(* every function declared for T, whichever impl block states it *)
ImplFuncsAll == LET mine == SelectSeq(M.impls, LAMBDA b : b.name = "T") IN Flatten([k \in DOMAIN mine |-> mine[k].funcs])
(* functions attached to something that is not a type of the module have nowhere to go: the description is in error *)
OrphanImpl == \E i \in DOMAIN M.impls : ~\E j \in DOMAIN M.defs : M.defs[j].name = M.impls[i].name /\ M.defs[j].k = "type"

FnBad(f) ==
  \/ ~IsSome(f.addr)
  \/ \E i \in DOMAIN f.args : f.args[i].k = "named" /\ DTy(input, M, f.args[i].ty) = TNone
  \/ (f.ret # TNone /\ DTy(input, M, f.ret) = TNone)

(* an address is a location: a negative one (on an extern value, on an enum singleton) addresses nothing *)
EvalBad == \/ \E i \in DOMAIN M.evals : ~IsSome(M.evals[i].addr) \/ M.evals[i].addr < 0 \/ DTy(input, M, M.evals[i].ty) = TNone
           \/ \E i \in DOMAIN M.defs : IsSome(M.defs[i].singleton) /\ M.defs[i].singleton < 0

MustReject == (\E i \in DOMAIN ImplFuncsAll : FnBad(ImplFuncsAll[i])) \/ EvalBad \/ OrphanImpl

(* C05 on the emitted methods of T: every declared function has exactly one wrapper, bound *)
(* to its address, with the declared parameters in order and the declared return type       *)
P_C05(crate) ==
  LET it == CrateItemAt(crate, <<"m", "T">>)
  IN \A i \in DOMAIN ImplFuncsAll :
       LET f == ImplFuncsAll[i]
           hits == {j \in DOMAIN it.methods : it.methods[j].name = f.name /\ it.methods[j].body.k = "addr"
                                               /\ it.methods[j].body.a = f.addr}
       IN /\ Cardinality(hits) = 1
          /\ LET mm == it.methods[CHOOSE j \in hits : TRUE]
             IN /\ Len(mm.args) = Len(f.args)
                /\ \A k \in DOMAIN f.args :
                     /\ mm.args[k].k = f.args[k].k
                     /\ f.args[k].k = "named" => (mm.args[k].name = f.args[k].name /\ mm.args[k].ty = DTy(input, M, f.args[k].ty))
                /\ mm.ret = DTy(input, M, f.ret)

(* C15 on the abstract file *)
P_C15(crate) ==
  LET file == CHOOSE f \in crate.files : f.path = <<"m">>
      t == CrateItemAt(crate, <<"m", "T">>)
      e == CrateItemAt(crate, <<"m", "E">>)
  IN /\ t.singleton = M.defs[Len(M.defs) - 1].singleton
     /\ e.singleton = M.defs[Len(M.defs)].singleton
     /\ (\E i \in DOMAIN M.defs : M.defs[i].name = "Eng") => CrateItemAt(crate, <<"m", "Eng">>).singleton = 262144
     /\ (HasGlobals => \E g \in crate.files : g.path = <<"g">> /\ Len(g.evals) = Len(G.evals)
                                                  /\ \A i \in DOMAIN G.evals : g.evals[i].name = G.evals[i].name /\ g.evals[i].addr = G.evals[i].addr
                                                                                /\ g.evals[i].ty = DTy(input, G, G.evals[i].ty))
     /\ Len(file.evals) = Len(M.evals)
     /\ \A i \in DOMAIN M.evals :
          /\ file.evals[i].name = M.evals[i].name /\ file.evals[i].addr = M.evals[i].addr
          /\ file.evals[i].ty = DTy(input, M, M.evals[i].ty) /\ file.evals[i].vis = M.evals[i].vis

Inv_C05 == Terminal => (((\E i \in DOMAIN ImplFuncsAll : FnBad(ImplFuncsAll[i])) \/ OrphanImpl) => Rejected) /\ (Accepted => P_C05(Crate))
Inv_C15 == Terminal => (EvalBad => Rejected) /\ (Accepted => P_C15(Crate))

PViol == (IF Inv_C05 THEN {} ELSE {"C05"}) \cup (IF Inv_C15 THEN {} ELSE {"C15"})

RegView ==
  LET ps == {p \in DOMAIN reg : reg[p].cat # "pre"}
  IN {[path |-> p, cat |-> reg[p].cat, st |-> reg[p].st, vis |-> reg[p].vis, res |-> reg[p].res] : p \in ps}

FnOracle(f) ==
  [name |-> f.name, addr |-> f.addr, bad |-> FnBad(f),
   args |-> [k \in DOMAIN f.args |-> [k |-> f.args[k].k, name |-> f.args[k].name,
                                      ty |-> IF f.args[k].k = "named" THEN DTy(input, M, f.args[k].ty) ELSE TNone]],
   ret |-> DTy(input, M, f.ret), cc |-> DeclCC(f)]

ReplayRecord ==
  [group |-> "impl", input |-> input, order |-> added, sched |-> hist,
   accepted |-> Accepted, err |-> err, pviol |-> IF Terminal THEN PViol ELSE {},
   oracle |-> [mustReject |-> MustReject, fnBad |-> (\E i \in DOMAIN ImplFuncsAll : FnBad(ImplFuncsAll[i])) \/ OrphanImpl, evalBad |-> EvalBad,
               funcs |-> [i \in DOMAIN ImplFuncsAll |-> FnOracle(ImplFuncsAll[i])],
               evals |-> [i \in DOMAIN M.evals |-> [name |-> M.evals[i].name, addr |-> M.evals[i].addr, vis |-> M.evals[i].vis,
                                                     ty |-> DTy(input, M, M.evals[i].ty)]],
               gevals |-> IF HasGlobals THEN [i \in DOMAIN G.evals |-> [name |-> G.evals[i].name, addr |-> G.evals[i].addr, vis |-> G.evals[i].vis,
                                                                        ty |-> DTy(input, G, G.evals[i].ty)]] ELSE <<>>,
               tsingle |-> M.defs[Len(M.defs) - 1].singleton, esingle |-> M.defs[Len(M.defs)].singleton,
               osingle |-> IF \E i \in DOMAIN M.defs : M.defs[i].name = "Eng" THEN 262144 ELSE None,
               kf |-> <<>>],
   mirror |-> [reg |-> RegView, out |-> out]]

Replay == Terminal => PrintT(<<"REPLAY", ToJson(ReplayRecord)>>)
View == StdView
=============================================================================
