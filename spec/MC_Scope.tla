------------------------------ MODULE MC_Scope ------------------------------
(***************************************************************************)
(* Name binding (C11) and independence from unrelated definitions (C19).   *)
(* The same short name is defined with pairwise different sizes in a       *)
(* subset of { the referring module m, module a, module b, nested module   *)
(* a::n }; m imports types and modules in every order.  m's type R embeds  *)
(* the name by value (its size reveals the binding) and mentions it in a   *)
(* parameter and a return type (the emitted paths reveal it).              *)
(* A perturbation adds / changes / removes definitions that m cannot       *)
(* reach; m's file must not change.                                        *)
(***************************************************************************)
EXTENDS Det, Props, Json

CONSTANTS TypeNames, DefSets, UseSeqs, Perts, Ptrs

UseEntries == {<<"ty", "a">>, <<"ty", "b">>, <<"ty", "n">>, <<"mod", "a">>, <<"mod", "b">>, <<"mod", "n">>}
NoRepeat(sq) == \A i, j \in DOMAIN sq : i # j => sq[i] # sq[j]
UseSeqsUpTo(k) == UNION {{sq \in [1..n -> UseEntries] : NoRepeat(sq)} : n \in 0..k}
(* "gen": an import of another instantiation, `use b::X<Q>`, of which module b declares an extern type: it is not an *)
(* import of `X` (names are compared whole, generic arguments included)                                            *)
GenUseSeqs == {<< <<"gen", "b">> >>, << <<"gen", "b">>, <<"mod", "b">> >>, << <<"ty", "a">>, <<"gen", "b">> >>, << <<"gen", "b">>, <<"ty", "a">> >>,
               << <<"mod", "a">>, <<"gen", "b">> >>}
QUseSeqs == UseSeqsUpTo(2) \cup GenUseSeqs
TUseSeqs == UseSeqsUpTo(3)
(* repeated imports: the last occurrence of a type import decides *)
Q2UseSeqs == [1..3 -> {<<"ty", "a">>, <<"ty", "b">>, <<"mod", "a">>}]
NoPerts == {"none"}
OrderPerts == {"none", "mmid", "mlast"}
AllDefSets == SUBSET {"m", "a", "b", "n"}
QPerts == {"none", "addtype", "addvft", "othername", "addmod", "addfirst", "shadowown", "enclosing", "shadowmod", "rawtwin", "dotdir", "nestedlike",
           "mmid", "mlast"}   \* the same modules, m added after a (and before b) / last

(* where the name may be defined, and the size it has there *)
Places == <<"m", "a", "b", "n">>
PlacePath(pl) == CASE pl = "m" -> <<"m">> [] pl = "a" -> <<"a">> [] pl = "b" -> <<"b">> [] OTHER -> <<"a", "n">>
PlaceSize(pl) == CASE pl = "m" -> 1 [] pl = "a" -> 2 [] pl = "b" -> 4 [] OTHER -> 8

DefOf(name, pl) ==
  TypeDef(name, "pub", <<Field("v", "pub", <<>>, TArr(TNm("u8"), PlaceSize(pl)), None, FALSE)>>)

(* a use entry: <<kind, place>>, kind "ty" imports the type by name, "mod" the module *)
UsePath(name, u) == IF u[1] = "ty" THEN Append(PlacePath(u[2]), name)
                    ELSE IF u[1] = "gen" THEN Append(PlacePath(u[2]), name \o "<Q>")
                    ELSE PlacePath(u[2])

Unrelated == TypeDef("Zed", "pub", <<Field("v", "pub", <<>>, TNm("u64"), None, FALSE)>>)
UnrelatedV == [TypeDef("Zed", "pub", <<Field("w", "pub", <<>>, TCPtr(TNm("u8")), None, FALSE)>>)
                 EXCEPT !.vft = Vft(None, <<Func("vf", "pub", <<>>, <<ArgM>>, TNone, None, None, "")>>)]

MkInput(ptr, name, defs, uses, pert, en) ==
  LET R == TypeDef("R", "pub", <<Field("f", "pub", <<>>, TNm(name), None, FALSE)>>)
      g == Func("g", "pub", <<>>, <<ArgC, Arg("p", TCPtr(TNm(name)))>>, TMPtr(TNm(name)), 4096, None, "")
      own(pl) == IF pl \in defs THEN <<DefOf(name, pl)>> ELSE <<>>
      (* perturbations touch only what m neither imports nor mentions *)
      extraB == CASE pert = "addtype" -> <<Unrelated>>
                  [] pert = "addvft" -> <<UnrelatedV>>
                  [] OTHER -> <<>>
      (* m also has a type of its own (`Own`) that R embeds; the nested module a::n refers to `W`, *)
      (* which it sees through the module import `use b`                                        *)
      Own == TypeDef("Own", "pub", <<Field("v", "pub", <<>>, TArr(TNm("i8"), 3), None, FALSE)>>)
      (* ... and a gap: `unknown<N>` is N bytes whatever a type called `u8` may be in scope *)
      R2 == [R EXCEPT !.fields = @ \o <<Field("o", "pub", <<>>, TNm("Own"), None, FALSE), Field("_", "priv", <<>>, TUnk(2), None, FALSE)>>,
                      !.packed = TRUE]
      W(sz) == TypeDef("W", "pub", <<Field("v", "pub", <<>>, TArr(TNm("u8"), sz), None, FALSE)>>)
      RN == [TypeDef("RN", "pub", <<Field("w", "pub", <<>>, TNm("W"), None, FALSE)>>
                                    \o (IF "n" \in defs THEN <<Field("own", "pub", <<>>, TNm(name), None, FALSE)>> ELSE <<>>))
               EXCEPT !.packed = TRUE]
      (* an enum over the name: accepted only when the name denotes the built-in integer type *)
      En == EnumDef("En", "pub", TNm(name), <<Variant("A", NumNone, FALSE)>>)
      (* m also holds a type that reaches one base type over two paths (the backend emits markers for it), and so *)
      (* does the unrelated module of the perturbations: what one module emits must not depend on the other      *)
      OwnP == TypeDef("OwnP", "pub", <<Field("v", "pub", <<>>, TCPtr(TNm("u8")), None, FALSE)>>)
      Dia == TypeDef("Dia", "pub", <<Field("l", "pub", <<>>, TNm("OwnP"), None, TRUE), Field("r", "pub", <<>>, TNm("OwnP"), None, TRUE)>>)
      ZP == TypeDef("ZP", "pub", <<Field("v", "pub", <<>>, TCPtr(TNm("u8")), None, FALSE)>>)
      ZDia == TypeDef("ZDia", "pub", <<Field("l", "pub", <<>>, TNm("ZP"), None, TRUE), Field("r", "pub", <<>>, TNm("ZP"), None, TRUE)>>)
      mm == [Module(<<"m">>, [i \in DOMAIN uses |-> UsePath(name, uses[i])], own("m") \o <<Own, R2, OwnP, Dia>> \o (IF en THEN <<En>> ELSE <<>>))
               EXCEPT !.impls = <<Impl("R", <<g>>), Impl("OwnP", <<Func("h", "pub", <<>>, <<ArgC>>, TNm("u32"), 12288, None, "")>>)>>,
                      (* an extern value mentions the name too: its accessor type reveals the binding *)
                      !.evals = <<ExtVal("gx", "pub", TCPtr(TNm(name)), 8192)>>]
      ma == Module(<<"a">>, <<>>, own("a") \o (IF pert = "othername" THEN <<DefOf("Other", "b")>> ELSE <<>>)
                                  \o (IF pert = "shadowown" THEN <<[Own EXCEPT !.fields[1].ty = TArr(TNm("u8"), 8)]>> ELSE <<>>)
                                  \o (IF pert = "enclosing" THEN <<W(2)>> ELSE <<>>)
                                  (* a type in the enclosing module named like the nested module *)
                                  (* (it mentions the name when module a defines it: analysed in a's context, not a::n's) *)
                                  \o (IF pert = "shadowmod"
                                      THEN <<TypeDef("n", "pub", IF "a" \in defs THEN <<Field("q", "pub", <<>>, TNm(name), None, FALSE)>> ELSE <<>>)>>
                                      ELSE <<>>))
      hasGen == \E i \in DOMAIN uses : uses[i][1] = "gen"
      mb == [Module(<<"b">>, <<>>, own("b") \o <<W(4)>> \o extraB)
               EXCEPT !.exts = IF hasGen THEN <<ExtType(name \o "<Q>", 16, 1)>> ELSE <<>>]
      mn == Module(<<"a", "n">>, <<<<"b">>>>, own("n") \o <<RN>>)
      mz == Module(<<"zz">>, <<<<"a">>>>, <<DefOf(name, "b"), Unrelated, ZP, ZDia>>)
      mraw == Module(<<"r#m">>, <<>>, <<Unrelated>>)
      mdot == Module(<<"a.x", "n">>, <<<<"b">>>>, <<Unrelated>>)
      (* a module nested in m that is named like m's type OwnP: OwnP (its fields, its impl block) still belongs to m *)
      (* (OwnP has only built-in fields and an impl block: its description stays resolvable whatever scope it is read in)  *)
      mnest == Module(<<"m", "OwnP">>, <<>>, <<Unrelated>>)
      base == <<mm, ma, mb, mn>>
  IN [ptr |-> ptr, gen |-> [ptr |-> ptr, name |-> name, defs |-> defs, uses |-> uses, en |-> en],
      mods |-> CASE pert = "addmod" -> base \o <<mz>>
                 [] pert = "addfirst" -> <<mz>> \o base
                 [] pert = "rawtwin" -> base \o <<mraw>>
                 [] pert = "dotdir" -> <<mdot>> \o base
                 [] pert = "nestedlike" -> base \o <<mnest>>
                 [] pert = "mmid" -> <<ma, mm, mb, mn>>
                 [] pert = "mlast" -> <<ma, mb, mn, mm>>
                 [] OTHER -> base]

BaseOf(inp) == MkInput(inp.gen.ptr, inp.gen.name, inp.gen.defs, inp.gen.uses, "none", inp.gen.en)

MCInit ==
  /\ \E ptr \in Ptrs, name \in TypeNames, defs \in DefSets, uses \in UseSeqs, pert \in Perts, en \in BOOLEAN :
        /\ (en => (name = "u16" /\ pert = "none"))
        /\ input = MkInput(ptr, name, defs, uses, pert, en)
  /\ InitRest

MCSpec == MCInit /\ [][Next]_vars /\ WF_vars(Next)

(* ------------------------------ properties ----------------------------- *)
MIdx == CHOOSE i \in DOMAIN input.mods : input.mods[i].path = <<"m">>
MMod == input.mods[MIdx]
Name == input.gen.name
Bound == Bind(input, MMod, Name)
Crate == [ptr |-> input.ptr, files |-> out, exts |-> ExtMap(input), real |-> <<>>]

SizeOfPath(p) ==   \* the declared size of the definition at p (built-ins by table)
  IF Len(p) = 1 THEN BuiltinSize(p[1])
  ELSE PlaceSize(CHOOSE pl \in Range(Places) : PlacePath(pl) = Front(p))

BuiltinSizeOf(n) == Builtins[CHOOSE i \in DOMAIN Builtins : Builtins[i][1] = n][2]

MFile(files) == CHOOSE f \in files : f.path = <<"m">>
NFile(files) == CHOOSE f \in files : f.path = <<"a", "n">>

HasEn == input.gen.en
ShouldAccept == Bound # <<>> /\ (HasEn => Bound = <<"u16">>)
AMod == input.mods[CHOOSE i \in DOMAIN input.mods : input.mods[i].path = <<"a">>]
(* the type `n` of module a (perturbation shadowmod) mentions the name: it binds in a's context *)
ShadowBound == IF \E i \in DOMAIN AMod.defs : AMod.defs[i].name = "n" /\ AMod.defs[i].fields # <<>>
               THEN Bind(input, AMod, Name) ELSE <<>>

Inv_C11 ==
  Terminal =>
    /\ Accepted <=> ShouldAccept
    /\ Accepted =>
         LET r == CrateItemAt(Crate, <<"m", "R">>)
             want == RRaw(Bound)
             wsize == IF Len(Bound) = 1 THEN BuiltinSizeOf(Bound[1]) ELSE SizeOfPath(Bound)
             g == r.methods[CHOOSE j \in DOMAIN r.methods : r.methods[j].name = "g"]
         IN /\ r.fields[1].ty = want
            /\ reg[<<"m", "R">>].res.size = wsize + 5
            /\ g.args[2].ty = RCPtr(want) /\ g.ret = RMPtr(want)
            /\ (ShadowBound # <<>> => CrateItemAt(Crate, <<"a", "n">>).fields[1].ty = RRaw(ShadowBound))
            /\ (HasEn => reg[<<"m", "En">>].res.size = 2)
            /\ \E i \in DOMAIN MFile(out).evals : MFile(out).evals[i].name = "gx" /\ MFile(out).evals[i].ty = RCPtr(want)

(* the perturbations leave everything m reaches untouched; those that do not add to module b *)
(* (which a::n imports) leave a::n's reach untouched as well                                  *)
NUntouched == \A mi \in DOMAIN input.mods : input.mods[mi].path = <<"b">> =>
                 \A i \in DOMAIN input.mods[mi].defs : input.mods[mi].defs[i].name # "Zed"

(* a type `n` added to module `a` sits at the path a::n; if m imports that path the change is not unrelated to m *)
MUntouched ==
  ~(\E mi \in DOMAIN input.mods : input.mods[mi].path = <<"a">> /\ \E i \in DOMAIN input.mods[mi].defs : input.mods[mi].defs[i].name = "n")
  \/ <<"a", "n">> \notin Range(MMod.uses)

Inv_C19 ==
  Accepted =>
    LET b == DetRunOn(BaseOf(input))
    IN b.ok => /\ MUntouched => MFile(out) = MFile(b.out)
               /\ NUntouched => NFile(out) = NFile(b.out)

PViol == (IF Inv_C11 THEN {} ELSE {"C11"}) \cup (IF Inv_C19 THEN {} ELSE {"C19"})

RegView ==
  LET ps == {p \in DOMAIN reg : reg[p].cat # "pre"}
  IN {[path |-> p, cat |-> reg[p].cat, st |-> reg[p].st, vis |-> reg[p].vis, res |-> reg[p].res] : p \in ps}

ReplayRecord ==
  [group |-> "scope", input |-> input, order |-> added, sched |-> hist,
   accepted |-> Accepted, err |-> err, pviol |-> IF Terminal THEN PViol ELSE {},
   oracle |-> [bound |-> Bound, accept |-> ShouldAccept, shadowBound |-> ShadowBound, en |-> HasEn,
               size |-> IF Bound = <<>> THEN None ELSE 5 + (IF Len(Bound) = 1 THEN BuiltinSizeOf(Bound[1]) ELSE SizeOfPath(Bound)),
               kf |-> <<>>],
   mirror |-> [reg |-> RegView, out |-> out]]

Replay == Terminal => PrintT(<<"REPLAY", ToJson(ReplayRecord)>>)
View == StdView
=============================================================================
