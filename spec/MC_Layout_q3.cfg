SPECIFICATION MCSpec
CONSTANTS
  SpuriousPass = FALSE
  AllSchedules = TRUE
  PermuteModules = FALSE
  MaxFields = 2
  Addrs <- QAddrs
  Sizes <- Q2Sizes
  Aligns <- Q3Aligns
  Palette <- Q3Palette
  Ptrs = {4, 8}
  WithVft = {FALSE, TRUE}
  WithPacked = {FALSE}
  Names = {"f", "_"}
INVARIANTS Inv_RustDefined Replay
CHECK_DEADLOCK FALSE
VIEW View
