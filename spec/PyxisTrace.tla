----------------------------- MODULE PyxisTrace -----------------------------
(***************************************************************************)
(* Trace validation, direction B: records written by the harness from runs *)
(* of the real pyxis (abstract input, what the code resolved and emitted,  *)
(* and the layouts the real compilers computed for the emitted items) are  *)
(* read back and the property predicates of Props.tla are evaluated on the *)
(* *observed* values.  One step per record; a VERDICT line per record      *)
(* lists the properties that the observed behaviour violates.              *)
(*                                                                         *)
(* record = [id, input, accepted, reg : Seq(item), files : Seq(file),      *)
(*           real : Seq([path, size, align, offs]), plain : BOOLEAN]       *)
(***************************************************************************)
EXTENDS Props, Json, IOUtils

Rec == ndJsonDeserialize(IOEnv.TRACE)

VARIABLE l
TraceInit == l = 1

ObsCrate(r) ==
  [ptr |-> r.input.ptr, files |-> {r.files[i] : i \in DOMAIN r.files},
   exts |-> ExtMap(r.input), real |-> r.real]

ObsReg(r) == [p \in {r.reg[i].path : i \in DOMAIN r.reg} |->
                r.reg[CHOOSE i \in DOMAIN r.reg : r.reg[i].path = p]]

AllTypeDefs(inp) ==
  UNION {{<<mi, di>> : di \in TypeDefsOf(inp.mods[mi])} : mi \in DOMAIN inp.mods}

(* records of kind "graph": a (large, random) dependency graph and the verdict the code gave.  *)
(* C10 is evaluated with the declarative oracle computed here on the recorded input.           *)
GraphViolated(r) ==
  LET inp == r.input
      unres == {r.nonterm[i] : i \in DOMAIN r.nonterm}
  IN (IF (r.accepted /\ ~ResolvableIn(inp)) \/ (~r.accepted /\ r.isNameErr /\ ResolvableIn(inp)) THEN {"C10"} ELSE {})
     \cup (IF ~r.accepted /\ r.isNonterm /\ FnNamesDefinedIn(inp) /\ EvalNamesDefinedIn(inp)
              /\ unres # UnresolvablePathsOf(inp) THEN {"C10"} ELSE {})

(* what the observed behaviour violates *)
Violated(r) ==
  IF r.kind = "graph" THEN GraphViolated(r) ELSE
  LET crate == ObsCrate(r)
      inp == r.input
      reg == ObsReg(r)
      emitted == {p \in DOMAIN reg : reg[p].cat = "def" /\ reg[p].st = "R"}
  IN (IF r.accepted /\ \E x \in AllTypeDefs(inp) : ~P_C01(crate, inp, x[1], x[2]) THEN {"C01"} ELSE {})
     \cup
     (IF r.accepted /\ ((\E p \in emitted : ~P_C02_Item(crate, reg, p))
                        \/ \E x \in AllTypeDefs(inp) : ~P_C02_Decl(crate, inp, x[1], x[2]))
      THEN {"C02"} ELSE {})
     \cup
     (IF r.plain /\ (r.accepted # Realisable(crate, inp, 1, Len(inp.mods[1].defs))) THEN {"C03"} ELSE {})

Step ==
  /\ l <= Len(Rec)
  /\ PrintT(<<"VERDICT", ToJson([id |-> Rec[l].id, viol |-> Violated(Rec[l]),
                                  kf |-> Rec[l].kind = "graph" /\ MentionsGeneratedIn(Rec[l].input)])>>)
  /\ l' = l + 1

TraceSpec == TraceInit /\ [][Step]_l

(* accepted when every record has been consumed *)
TraceAccepted == TLCGet("stats").diameter - 1 = Len(Rec)
=============================================================================
