SPECIFICATION Spec
CONSTANTS
  AlphaSet = "full"
  BaseSet = {}
INVARIANTS RoundTrip Decides Replay
CHECK_DEADLOCK FALSE
