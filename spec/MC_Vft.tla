------------------------------- MODULE MC_Vft -------------------------------
(***************************************************************************)
(* Vftable blocks and calling conventions (C04, C16; static side of C05).  *)
(* One type V with 0..3 virtual functions of fixed, pairwise different     *)
(* signatures, every combination of #[index] on each, a declared table     *)
(* size, a calling-convention attribute on the second function, and an     *)
(* impl block with one address-bound function with/without receiver and    *)
(* convention.                                                             *)
(***************************************************************************)
EXTENDS Pyxis, Props, Json

CONSTANTS MaxFuncs, Idxs, TSizes, CCs, ImplCCs, Ptrs, NoRecv, SweepCCs

MIdxs == {None, 0, 1, 2, 4}
MSizes == {None, 0, 1, 2, 3, 5}
TIdxs == {None, 0 - 1, 0, 1, 2, 3}
TSizesAll == {None, 0 - 2, 0, 1, 2, 3, 4}

Sig(i, idx, cc) ==
  CASE i = 1 -> Func("f1", "pub", <<>>, <<ArgM>>, TNone, None, idx, "")
    (* f2 is documented: the doc comment is one more attribute next to `index` and `calling_convention`, in any order *)
    [] i = 2 -> Func("f2", "pub", <<" second function">>, <<ArgC, Arg("a", TNm("u32"))>>, TNm("u32"), None, idx, cc)
    [] i = 3 -> Func("f3", "priv", <<>>, <<ArgM, Arg("p", TCPtr(TNm("u8"))), Arg("b", TNm("u64"))>>,
                     TMPtr(TNm("V")), None, idx, "")
    (* a virtual function without receiver (its wrapper is outside the compilable fragment) *)
    [] OTHER -> Func("s4", "pub", <<>>, <<Arg("n", TNm("i16"))>>, TNone, None, idx, "")

ImplFn(cc, recv) ==
  Func("h", "pub", <<>>, (IF recv THEN <<ArgC>> ELSE <<>>) \o <<Arg("x", TNm("i32"))>>, TNm("i32"), 4096, None, cc)

MkInput(ptr, n, idxs, size, cc, icc, recv, vdoc, norecv) ==
  LET V == [TypeDef("V", "pub", <<Field("x", "pub", <<>>, TNm("u32"), None, FALSE)>>)
              EXCEPT !.vft = [Vft(size, [i \in 1..n |-> Sig(i, idxs[i], cc)] \o (IF norecv THEN <<Sig(4, None, "")>> ELSE <<>>)) EXCEPT !.doc = vdoc],
                     !.align = ptr]
      pad == Field("y", "pub", <<>>, TNm("u32"), None, FALSE)
      V2 == IF ptr = 8 THEN [V EXCEPT !.fields = Append(@, pad)] ELSE V
      m == [Module(<<"m">>, <<>>, <<V2>>) EXCEPT !.impls = <<Impl("V", <<ImplFn(icc, recv)>>)>>]
  IN [ptr |-> ptr, mods |-> <<m>>]

MCInit ==
  /\ \/ \E ptr \in Ptrs, n \in 0..MaxFuncs, i1 \in Idxs, i2 \in Idxs, i3 \in Idxs, size \in TSizes,
           cc \in CCs, icc \in ImplCCs, recv \in BOOLEAN, vdoc \in {<<>>, <<" the table">>}, norecv \in NoRecv :
           /\ (n < 1 => i1 = None) /\ (n < 2 => (i2 = None /\ cc = "")) /\ (n < 3 => i3 = None)
           /\ (vdoc # <<>> => (recv /\ icc = ""))
           /\ (norecv => (vdoc = <<>> /\ icc = "" /\ recv /\ size = None))
           /\ input = MkInput(ptr, n, <<i1, i2, i3>>, size, cc, icc, recv, vdoc, norecv)
     (* a virtual function that also carries #[address]: rejected today; if it is ever accepted its   *)
     (* wrapper still has to go through the slot                                                      *)
     \/ \E ptr \in Ptrs, n \in 1..2, k \in 1..2 :
           /\ k <= n
           /\ input = [MkInput(ptr, n, <<None, None, None>>, None, "", "", TRUE, <<>>, FALSE)
                         EXCEPT !.mods[1].defs[1].vft.funcs[k].addr = 8192]
     (* a second calling_convention attribute with an unknown name next to a valid one *)
     \/ \E ptr \in Ptrs, onV \in BOOLEAN :
           input = [MkInput(ptr, 2, <<None, None, None>>, None, "cdecl", "fastcall", TRUE, <<>>, FALSE)
                      EXCEPT !.mods[1].defs[1].vft.funcs[2].xattrs = IF onV THEN <<BogusCC>> ELSE <<>>,
                             !.mods[1].impls[1].funcs[1].xattrs = IF onV THEN <<>> ELSE <<BogusCC>>]
     (* an unknown convention on an impl function whose name starts with an underscore (such functions get no wrapper) *)
     \/ \E ptr \in Ptrs :
           input = [MkInput(ptr, 1, <<None, None, None>>, None, "", "pascal", TRUE, <<>>, FALSE)
                      EXCEPT !.mods[1].impls[1].funcs[1].name = "_h"]
     (* the convention sweep: every name on the slot and on the wrapper, the other dimensions at rest *)
     \/ \E ptr \in Ptrs, cc \in SweepCCs \cup {""}, icc \in SweepCCs \cup {""}, recv \in BOOLEAN :
           input = MkInput(ptr, 2, <<None, None, None>>, None, cc, icc, recv, <<>>, FALSE)
  /\ InitRest

MCSpec == MCInit /\ [][Next]_vars /\ WF_vars(Next)

(* ------------------------------ properties ----------------------------- *)
Crate == [ptr |-> input.ptr, files |-> out, exts |-> ExtMap(input), real |-> <<>>]
VDef == input.mods[1].defs[1]
VPath == <<"m", "V">>
TabPath == <<"m", "VVftable">>

BadCC == (\E i \in DOMAIN VDef.vft.funcs : VDef.vft.funcs[i].cc \notin Conventions \cup {""} \/ HasBadExtra(VDef.vft.funcs[i]))
         \/ input.mods[1].impls[1].funcs[1].cc \notin Conventions \cup {""}
         \/ HasBadExtra(input.mods[1].impls[1].funcs[1])

KF_Contradictory == ~CHECKIDX /\ ContradictoryVft(VDef.vft)

Inv_C04 ==
  Terminal =>
    /\ ContradictoryVft(VDef.vft) => Rejected
    /\ Accepted =>
         /\ CrateItemAt(Crate, TabPath).k = "struct"
         /\ P_C04_Table(VDef.vft, CrateItemAt(Crate, TabPath), RustItem(Crate, TabPath, 8), input.ptr)
         (* the type owns the table pointer: first field, offset 0 *)
         /\ CrateItemAt(Crate, VPath).fields[1].name = "vftable"
         /\ RustItem(Crate, VPath, 8).offs[1] = 0
         (* each declared public function has a wrapper calling its own slot by name *)
         /\ \A i \in DOMAIN VDef.vft.funcs :
              LET f == VDef.vft.funcs[i]
                  ms == CrateItemAt(Crate, VPath).methods
              IN \E j \in DOMAIN ms : ms[j].name = f.name /\ ms[j].body.k = "vft" /\ ms[j].body.fn = f.name
                                       /\ ms[j].vis = f.vis /\ Len(ms[j].args) = Len(f.args)

Inv_C16 ==
  Terminal =>
    /\ BadCC => Rejected
    /\ Accepted =>
         LET tab == CrateItemAt(Crate, TabPath)
             ms == CrateItemAt(Crate, VPath).methods
             h == input.mods[1].impls[1].funcs[1]
         IN /\ \A i \in DOMAIN tab.fields :
                 \A k \in DOMAIN VDef.vft.funcs :
                    tab.fields[i].name = VDef.vft.funcs[k].name => tab.fields[i].ty.cc = DeclCC(VDef.vft.funcs[k])
            /\ \A i \in DOMAIN tab.fields :
                 (\A k \in DOMAIN VDef.vft.funcs : tab.fields[i].name # VDef.vft.funcs[k].name)
                    => tab.fields[i].ty.cc = "thiscall"
            /\ \E j \in DOMAIN ms : ms[j].name = "h" /\ ms[j].body.k = "addr" /\ ms[j].cc = DeclCC(h)

PViol == (IF Inv_C04 THEN {} ELSE {"C04"}) \cup (IF Inv_C16 THEN {} ELSE {"C16"})

RegView ==
  LET ps == {p \in DOMAIN reg : reg[p].cat # "pre"}
  IN {[path |-> p, cat |-> reg[p].cat, st |-> reg[p].st, vis |-> reg[p].vis, res |-> reg[p].res] : p \in ps}

ReplayRecord ==
  [group |-> "vft", input |-> input, order |-> added, sched |-> hist,
   accepted |-> Accepted, err |-> err, pviol |-> IF Terminal THEN PViol ELSE {},
   oracle |-> [contradictory |-> ContradictoryVft(VDef.vft), badcc |-> BadCC,
               table |-> IF ContradictoryVft(VDef.vft) THEN <<>> ELSE ExpectedTable(VDef.vft),
               implcc |-> DeclCC(input.mods[1].impls[1].funcs[1]),
               kf |-> IF KF_Contradictory THEN <<"C04:contradictory-index-or-size">> ELSE <<>>],
   mirror |-> [reg |-> RegView, out |-> out]]

Replay == Terminal => PrintT(<<"REPLAY", ToJson(ReplayRecord)>>)
View == StdView
=============================================================================
