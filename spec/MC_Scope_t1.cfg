SPECIFICATION MCSpec
CONSTANTS
  SpuriousPass = FALSE
  AllSchedules = FALSE
  PermuteModules = FALSE
  TypeNames = {"X", "u16"}
  DefSets <- AllDefSets
  UseSeqs <- TUseSeqs
  Perts <- QPerts
  Ptrs = {4, 8}
INVARIANTS Replay
CHECK_DEADLOCK FALSE
VIEW View
