SPECIFICATION MCSpec
CONSTANTS
  PermuteModules = FALSE
  MaxFields = 2
  Addrs <- QAddrs
  Sizes <- QSizes
  Aligns <- QAligns
  Palette = {"u16", "N", "arr32x0"}
  Ptrs = {4}
  WithVft = {FALSE, TRUE}
  WithPacked = {FALSE}
  Names = {"f"}
INVARIANTS Inv_C01 Inv_C02 Inv_C03 Inv_RustDefined Replay
CHECK_DEADLOCK FALSE
VIEW View
