SPECIFICATION MCSpec
CONSTANTS
  SpuriousPass = FALSE
  AllSchedules = FALSE
  PermuteModules = FALSE
  FieldSets <- QFieldSets
  VftSets <- QVftSets
  EnumSets <- QEnumSets
  Ptrs = {4, 8}
  Pairs = TRUE
INVARIANTS Replay
CHECK_DEADLOCK FALSE
VIEW View
