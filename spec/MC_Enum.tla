------------------------------ MODULE MC_Enum ------------------------------
(***************************************************************************)
(* Enum descriptions (C08): every integer base type, 1..MaxVars variants,  *)
(* each value implicit or one of the boundary values of the base type      *)
(* (min-1, min, -1, 0, 1, max-1, max, max+1, as symbolic integers), the    *)
(* default marker at every position (or twice), defaultable on/off.        *)
(***************************************************************************)
EXTENDS Pyxis, Props, Json

CONSTANTS Bases, MaxVars, Markers, Ptrs

VarNames == <<"A", "B", "C", "D">>

Boundary(base) ==
  LET r == IntRange(base)
  IN {NumNone, NumInt(0), NumInt(1), NumInt(0 - 1), NumInt(7),
      r[1], [r[1] EXCEPT !.d = @ - 1], [r[1] EXCEPT !.d = @ + 1],
      r[2], [r[2] EXCEPT !.d = @ - 1], [r[2] EXCEPT !.d = @ + 1]}

(* 128-bit maxima cannot be written (the parser holds an isize); keep to what can be spelled *)
Spellable(x) == x = NumNone \/ (NumLE(Num("i64min", 0 - 2), x) /\ NumLE(x, Num("u64max", 2)))

RECURSIVE ExpVals(_, _, _)
ExpVals(vs, next, acc) ==
  IF vs = <<>> THEN acc
  ELSE LET v == IF Head(vs).val # NumNone THEN Head(vs).val ELSE next
       IN ExpVals(Tail(vs), NumSucc(v), Append(acc, v))

(* bases that are not primitive integers: other built-ins, a struct, an extern type, a pointer *)
NonIntBases == {"bool", "f32", "S", "X", "ptr"}
HelperS == TypeDef("S", "pub", <<Field("v", "pub", <<>>, TNm("u16"), None, FALSE)>>)

MkInput(ptr, base, vals, mark, defaultable, vdoc) ==
  LET n == Len(vals)
      vs == [i \in 1..n |-> [Variant(VarNames[i], vals[i], mark = i \/ (mark = 9 /\ i <= 2))
                               EXCEPT !.doc = IF vdoc THEN <<" case " \o VarNames[i]>> ELSE <<>>]]
      bty == IF base = "ptr" THEN TCPtr(TNm("u8")) ELSE TNm(base)
      E == [EnumDef("E", "pub", bty, vs) EXCEPT !.defaultable = defaultable, !.copyable = TRUE]
  IN [ptr |-> ptr,
      mods |-> <<[Module(<<"m">>, <<>>, <<E>> \o (IF base = "S" THEN <<HelperS>> ELSE <<>>))
                   EXCEPT !.exts = IF base = "X" THEN <<ExtType("X", 4, 4)>> ELSE <<>>]>>]

ValSeqs(base) == UNION {[1..n -> {v \in Boundary(base) : Spellable(v)}] : n \in 1..MaxVars}

MCInit ==
  /\ \/ \E ptr \in Ptrs, base \in Bases, mark \in Markers, defaultable \in BOOLEAN, vdoc \in BOOLEAN :
          \E vals \in ValSeqs(base) :
             /\ mark \in {0, 9} \/ mark <= Len(vals)
             /\ (mark = 9 => Len(vals) >= 2)
             (* Rust (unlike C++) has no duplicate discriminants: outside the fragment *)
             /\ LET e == ExpVals([i \in DOMAIN vals |-> Variant("x", vals[i], FALSE)], NumInt(0), <<>>)
                IN \A i, j \in DOMAIN e : i # j => e[i] # e[j]
             (* documented variants together with the default marker (a doc comment is an attribute too) *)
             /\ (vdoc => mark # 0)
             /\ input = MkInput(ptr, base, vals, mark, defaultable, vdoc)
     (* an explicit value below an earlier one, then implicit ones: they count on from their predecessor *)
     \/ \E ptr \in Ptrs, base \in {"u8", "i32"}, lo \in {0, 1, 3} :
          input = MkInput(ptr, base, <<NumInt(7), NumInt(lo), NumNone, NumNone>>, 0, FALSE, FALSE)
     (* a value that is not an integer literal (the name of another variant, a string) is no value *)
     \/ \E ptr \in Ptrs, raw \in {"A", "\"one\""} :
          input = [MkInput(ptr, "u16", <<NumInt(4), NumNone, NumNone, NumNone>>, 0, FALSE, FALSE)
                     EXCEPT !.mods[1].defs[1].vars[3].raw = raw]
     \/ \E ptr \in Ptrs, base \in NonIntBases, nv \in 1..2 :
          input = MkInput(ptr, base, [i \in 1..nv |-> NumNone], 0, FALSE, FALSE)
  /\ InitRest

MCSpec == MCInit /\ [][Next]_vars /\ WF_vars(Next)

(* ------------------------------ the oracle ----------------------------- *)
EDef == input.mods[1].defs[1]
EBase == IF EDef.base.k = "nm" THEN EDef.base.n ELSE "ptr"
NonIntBase == EBase \notin IntBases

Expected == ExpVals(EDef.vars, NumInt(0), <<>>)

MarkCount == Cardinality({i \in DOMAIN EDef.vars : EDef.vars[i].dflt})
OutOfRange == ~NonIntBase /\ \E i \in DOMAIN Expected : ~NumFits(EBase, Expected[i])
Unparsable == \E i \in DOMAIN Expected : ~FitsIsize(Expected[i])
MarkerMismatch == (EDef.defaultable /\ MarkCount = 0) \/ (~EDef.defaultable /\ MarkCount > 0)
(* "represented as the declared integer base type": a base that is no integer type cannot be *)
MustReject == OutOfRange \/ Unparsable \/ MarkerMismatch \/ NonIntBase \/ HasRawValue(EDef.vars)

KF_Base == ~CHECKENUMBASE /\ NonIntBase
KF_Range == ~CHECKENUMRANGE /\ OutOfRange /\ ~Unparsable /\ ~MarkerMismatch /\ MarkCount <= 1

Crate == [ptr |-> input.ptr, files |-> out, exts |-> ExtMap(input), real |-> <<>>]

Inv_C08 ==
  Terminal =>
    /\ MustReject => Rejected
    /\ Accepted =>
         LET it == CrateItemAt(Crate, <<"m", "E">>)
             l == RustItem(Crate, <<"m", "E">>, 8)
         IN /\ it.k = "enum" /\ it.repr = RRaw(<<EBase>>)
            /\ l.size = RustBuiltin(EBase).size /\ l.align = RustBuiltin(EBase).align
            /\ Len(it.vars) = Len(Expected)
            /\ \A i \in DOMAIN Expected : it.vars[i].val = Expected[i] /\ it.vars[i].name = EDef.vars[i].name
            /\ \A i \in DOMAIN it.vars : it.vars[i].dflt = EDef.vars[i].dflt
            /\ ("Default" \in Range(it.derives)) = EDef.defaultable

PViol == IF Inv_C08 THEN {} ELSE {"C08"}

RegView ==
  LET ps == {p \in DOMAIN reg : reg[p].cat # "pre"}
  IN {[path |-> p, cat |-> reg[p].cat, st |-> reg[p].st, vis |-> reg[p].vis, res |-> reg[p].res] : p \in ps}

ReplayRecord ==
  [group |-> "enum", input |-> input, order |-> added, sched |-> hist,
   accepted |-> Accepted, err |-> err, pviol |-> IF Terminal THEN PViol ELSE {},
   oracle |-> [mustReject |-> MustReject, expected |-> Expected, base |-> EBase,
               defaultIdx |-> IF MarkCount = 1 THEN CHOOSE i \in DOMAIN EDef.vars : EDef.vars[i].dflt ELSE 0,
               kf |-> IF KF_Base THEN <<"C08:non-integer-base", "C13:non-integer-base">>
                      ELSE IF KF_Range THEN <<"C08:discriminant-out-of-range", "C13:discriminant-out-of-range">> ELSE <<>>],
   mirror |-> [reg |-> RegView, out |-> out]]

Replay == Terminal => PrintT(<<"REPLAY", ToJson(ReplayRecord)>>)
View == StdView
=============================================================================
