SPECIFICATION MCSpec
CONSTANTS
  SpuriousPass = FALSE
  AllSchedules = TRUE
  PermuteModules = FALSE
  Shapes = {"field", "field-vftable", "variant", "vfunc", "param", "impl-vftable", "impl-get", "eval", "type", "type-enum", "type-ext", "ok-field-type", "ok-param-field", "ok-fn-field", "copy-struct", "clone-struct", "copy-clone", "copy-enum", "copy-vft", "ok-copy", "ok-copy-ext", "empty-enum"}
  Raws = {TRUE, FALSE}
  Ptrs = {4, 8}
INVARIANTS Replay
CHECK_DEADLOCK FALSE
VIEW View
