SPECIFICATION MCSpec
CONSTANTS
  SpuriousPass = FALSE
  AllSchedules = TRUE
  PermuteModules = FALSE
  N = 3
  Kinds = {"val", "ptr"}
  VftTypes = {1, 2}
  FnKinds = {"param", "ret", "vparam", "vret"}
  FnOwners = {1}
  Twins = {"none"}
  TwoModules = FALSE
  Ptrs = {4, 8}
INVARIANTS Inv_Passes Replay
CHECK_DEADLOCK FALSE
