SPECIFICATION MCSpec
CONSTANTS
  SpuriousPass = FALSE
  AllSchedules = TRUE
  PermuteModules = FALSE
  MaxFuncs = 3
  Idxs <- MIdxs
  TSizes <- MSizes
  CCs = {"", "cdecl", "bogus"}
  ImplCCs = {"", "fastcall", "Cdecl"}
  Ptrs = {4, 8}
  NoRecv = {FALSE, TRUE}
  SweepCCs = {"C", "cdecl", "stdcall", "fastcall", "thiscall", "vectorcall", "system"}
INVARIANTS Replay
CHECK_DEADLOCK FALSE
VIEW View
