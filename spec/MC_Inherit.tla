----------------------------- MODULE MC_Inherit -----------------------------
(***************************************************************************)
(* Inheritance shapes (C06, C07, and C16 through derived tables):          *)
(*   B0 (0..2 virtual functions, impl functions m0 / private p0)           *)
(*   B1 (optional second base, optional vftable, impl m0 clashing)         *)
(*   D  { #[base] b0: B0, [#[base] b1: B1], xd } with its own vftable      *)
(*      block in one of the variants below, impl md (or a clashing m0)     *)
(*   DD (none | { #[base] d: D } | diamond { #[base] d: D, #[base] e: B0 })*)
(* Variants of D's block relative to B0's table: none, same, extended, and *)
(* every single-slot mutation of a compatible prefix.                      *)
(***************************************************************************)
EXTENDS Pyxis, Props, Json

CONSTANTS NB0, Variants, WithB1, B1Vft, Clash, DDs, DDVft, Ptrs, Split, Lead, EmptyBlocks, B1Names, SameName, XdNames, Packs

Leaf(n) == Field(n, "pub", <<>>, TCPtr(TNm("u8")), None, FALSE)
(* base fields carry a doc comment: it is an attribute next to `base`, in either order *)
BaseF(n, t) == Field(n, "pub", <<" base part " \o n>>, TNm(t), None, TRUE)

F1 == Func("f1", "pub", <<" first">>, <<ArgM>>, TNone, None, None, "")
F2 == Func("f2", "pub", <<>>, <<ArgC, Arg("a", TNm("u32"))>>, TNm("u32"), None, None, "")
G  == Func("g", "pub", <<>>, <<ArgM, Arg("q", TMPtr(TNm("D")))>>, TNone, None, None, "")
H1 == Func("h1", "pub", <<>>, <<ArgM, Arg("z", TNm("u16"))>>, TNm("u16"), None, None, "stdcall")
(* n = 3: two functions with a gap between them (slot 1 is a placeholder) *)
(* n = 4: the second function has a name that starts with `_` (no wrapper is emitted for it, but it is a slot like any  *)
(*        other: a derived block must repeat it with the same signature and convention)                               *)
BaseFuncs(n) == IF n = 3 THEN <<F1, [F2 EXCEPT !.index = 2]>>
                ELSE IF n = 4 THEN <<F1, [F2 EXCEPT !.name = "_f2", !.cc = "stdcall"]>>
                ELSE SubSeq(<<F1, F2>>, 1, n)

Mutate(f, v) ==
  CASE v = "rename"  -> [f EXCEPT !.name = "fx"]
    [] v = "recv"    -> [f EXCEPT !.args = <<IF f.args[1].k = "cself" THEN ArgM ELSE ArgC>> \o Tail(f.args)]
    [] v = "ptype"   -> IF Len(f.args) > 1 THEN [f EXCEPT !.args[2].ty = TNm("u64")] ELSE [f EXCEPT !.args = Append(@, Arg("e", TNm("u8")))]
    [] v = "pcount"  -> [f EXCEPT !.args = Append(@, Arg("e", TNm("u8")))]
    [] v = "ret"     -> [f EXCEPT !.ret = IF f.ret = TNone THEN TNm("u32") ELSE TNm("u64")]
    [] v = "cc"      -> [f EXCEPT !.cc = "cdecl"]
    [] v = "argname" -> IF Len(f.args) > 1 THEN [f EXCEPT !.args[2].name = "renamed"] ELSE f
    [] v = "vis"     -> [f EXCEPT !.vis = "priv"]
    [] v = "doc"     -> [f EXCEPT !.doc = <<" other">>]
    [] OTHER -> f

DBlock(nb0, v, k) ==
  LET base == BaseFuncs(nb0)
  IN CASE v = "none"  -> NoVft
       [] v = "same"  -> Vft(None, base)
       [] v = "ext"   -> Vft(None, Append(base, G))
       [] v = "extm0" -> Vft(None, Append(base, Func("m0", "priv", <<>>, <<ArgM>>, TNone, None, None, "")))
       [] v = "emptyblk" -> Vft(None, <<>>)
       [] v = "trunc" -> Vft(None, SubSeq(base, 1, Len(base) - 1))
       (* shorter than the base table although its declared size hides it: the first function, padded to two slots *)
       [] v = "short" -> [Vft(None, SubSeq(base, 1, 1)) EXCEPT !.size = 2]
       [] v = "swap"  -> Vft(None, IF nb0 = 2 THEN <<F2, F1>> ELSE base)
       [] OTHER -> Vft(None, [i \in DOMAIN base |-> IF i = k THEN Mutate(base[i], v) ELSE base[i]] \o <<G>>)

M0(extra) == Func("m0", "pub", <<" m0 doc">>, <<ArgC>> \o extra, TNm("u32"), 262144, None, "")
P0 == Func("p0", "priv", <<>>, <<ArgM>>, TNone, 327680, None, "")
MD == Func("md", "pub", <<>>, <<ArgM, Arg("v", TNm("i64"))>>, TNone, 393216, None, "fastcall")
(* a function without receiver: derived types forward it through the type of the base field, not through `self` *)
S0 == Func("s0", "pub", <<>>, <<Arg("v", TNm("u32"))>>, TNm("u32"), 524288, None, "")

MkInput(ptr, nb0, v, k, b1, b1v, clash, dd, ddv, split, lead, eb, dvis, b1n, xdn, pk) ==
  LET B0 == [TypeDef("B0", "pub", <<Leaf("x0")>>) EXCEPT !.vft = IF nb0 > 0 \/ eb THEN Vft(None, BaseFuncs(nb0)) ELSE NoVft, !.packed = pk]
      B1 == [TypeDef("B1", "pub", <<Leaf("x1")>>) EXCEPT !.vft = IF b1v THEN Vft(None, <<H1>>) ELSE NoVft]
      (* dvis: the intermediate type need not be public for its own bases' functions to reach DD *)
      D == [TypeDef("D", dvis, (IF lead THEN <<Leaf("tag")>> ELSE <<>>) \o <<BaseF("b0", "B0")>> \o (IF b1 THEN <<BaseF(b1n, "B1")>> ELSE <<>>) \o <<Leaf(xdn)>>)
              (* pk: the whole chain is packed (a packed type can only embed packed types) *)
              EXCEPT !.vft = DBlock(nb0, v, k), !.packed = pk]
      (* "twin": the same type as first and as second base (the virtual functions of the second one are forwarded, renamed) *)
      DD == [TypeDef("DD", "pub", <<BaseF("d", "D")>> \o (IF dd = "diamond" THEN <<BaseF("e", "B0")>> ELSE IF dd = "twin" THEN <<BaseF("d2", "D")>> ELSE <<>>) \o <<Leaf("y")>>)
               (* with its own block: D's, or (when D only inherits its table) the base functions again plus one *)
               (* "flat": the same without the written indices -- compatible only when the base table has no gap *)
               EXCEPT !.vft = IF ddv = "no" THEN NoVft
                              ELSE IF ddv = "flat" THEN Vft(None, Append([i \in DOMAIN BaseFuncs(nb0) |-> [BaseFuncs(nb0)[i] EXCEPT !.index = None]], G))
                              ELSE IF D.vft.has THEN D.vft ELSE Vft(None, Append(BaseFuncs(nb0), G)),
                      !.packed = pk]
      defs == <<B0>> \o (IF b1 THEN <<B1>> ELSE <<>>) \o <<D>> \o (IF dd = "none" THEN <<>> ELSE <<DD>>)
      (* "renamed2": B0 itself has a public function called like the renamed m0 of B1 *)
      impls == <<Impl("B0", <<M0(<<>>), P0, S0>> \o (IF clash = "renamed2" THEN <<[MD EXCEPT !.name = b1n \o "_m0"]>> ELSE <<>>))>>
               (* B1 also has a public `p0`: B0's private function of that name does not take the name *)
               \o (IF b1 THEN <<Impl("B1", <<M0(<<Arg("k", TNm("i32"))>>), Func("p0", "pub", <<>>, <<ArgC>>, TNm("u32"), 458752, None, "")>>)>> ELSE <<>>)
               (* "renamed": D's own function has the name that B1's m0 gets when it is renamed (<field>_m0): taken as well *)
               \o <<Impl("D", <<IF clash = "derived" THEN M0(<<>>) ELSE IF clash = "renamed" THEN [MD EXCEPT !.name = b1n \o "_m0"] ELSE MD>>)>>
      isBase(n) == n \in {"B0", "B1"}
      mbase == [Module(<<"base">>, <<>>, SelectSeq(defs, LAMBDA x : isBase(x.name)))
                  EXCEPT !.impls = SelectSeq(impls, LAMBDA x : isBase(x.name))]
      mder == [Module(<<"m">>, <<<<"base", "B0">>>> \o (IF b1 THEN <<<<"base", "B1">>>> ELSE <<>>),
                      SelectSeq(defs, LAMBDA x : ~isBase(x.name)))
                 EXCEPT !.impls = SelectSeq(impls, LAMBDA x : ~isBase(x.name))]
  IN [ptr |-> ptr,
      mods |-> IF split THEN <<mder, mbase>>
               ELSE <<[Module(<<"m">>, <<>>, defs) EXCEPT !.impls = impls]>>]

(* two different types of one simple name (base::B0, other::B0) in one hierarchy: each occurs once, each gets its conversion *)
MkSameName(ptr) ==
  LET mbase == [Module(<<"base">>, <<>>, <<TypeDef("B0", "pub", <<Leaf("x0")>>)>>) EXCEPT !.impls = <<Impl("B0", <<M0(<<>>)>>)>>]
      mother == Module(<<"other">>, <<>>, <<TypeDef("B0", "pub", <<Leaf("y0"), Leaf("y1")>>),
                                            TypeDef("Mid", "pub", <<BaseF("base", "B0"), Leaf("z")>>)>>)
      mm == Module(<<"m">>, <<<<"base", "B0">>, <<"other", "Mid">>>>, <<TypeDef("X", "pub", <<BaseF("a", "B0"), BaseF("b", "Mid"), Leaf("w")>>)>>)
  IN [ptr |-> ptr, mods |-> <<mbase, mother, mm>>]

MCInit ==
  /\ \/ (SameName /\ \E ptr \in Ptrs : input = MkSameName(ptr))
     \/ \E ptr \in Ptrs, nb0 \in NB0, v \in Variants, k \in 1..2, b1 \in WithB1, b1v \in B1Vft,
        clash \in Clash, dd \in DDs, ddv \in DDVft, split \in Split, lead \in Lead, eb \in EmptyBlocks, dvis \in {"pub", "priv"},
        b1n \in B1Names, xdn \in XdNames, pk \in Packs :
        (* D's own field may be called `vftable`: legal as long as D does not own a pointer field of that name; the accessor *)
        (* still goes through the base                                                                                      *)
        /\ (xdn # "xd" => (~b1 /\ ~lead /\ ~split /\ dvis = "pub" /\ clash = "no" /\ v \in {"none", "same", "ext"} /\ ddv = "no"))
        (* the name of the second base field matters only when there is one; a name that starts with `_` next to the simplest shapes *)
        /\ (~b1 => b1n = "b1")
        /\ (b1n # "b1" => (v \in {"none", "same"} /\ ~lead /\ ~split /\ dvis = "pub" /\ ddv = "no"))
        /\ (dvis = "priv" => (dd # "none" /\ ~split /\ ~lead /\ ~b1v /\ clash = "no"))
        /\ k <= Max(Len(BaseFuncs(nb0)), 1)
        /\ (v \in {"none", "same", "ext", "extm0", "emptyblk", "trunc", "swap", "short"} => k = 1)
        /\ (nb0 = 0 => v \in {"none", "ext", "extm0", "emptyblk"})
        /\ (v = "trunc" => nb0 = 2) /\ (v = "swap" => nb0 = 2) /\ (v = "short" => nb0 = 3)
        /\ (nb0 = 4 => (~b1 /\ ~lead /\ ~split /\ dd \in {"none", "plain"} /\ clash = "no" /\ dvis = "pub" /\ xdn = "xd"))
        /\ (~b1 => ~b1v)
        /\ (clash \in {"renamed", "renamed2"} => (b1 /\ v \in {"none", "same"} /\ dd = "none" /\ ~lead /\ ~split))
        /\ (dd = "none" => ddv = "no")
        /\ (dd = "twin" => (ddv = "no" /\ ~b1 /\ ~lead /\ ~split /\ dvis = "pub" /\ clash = "no" /\ v \in {"none", "same", "ext"}))
        /\ (ddv = "flat" => (v = "none" /\ nb0 = 3))
        /\ (eb => nb0 = 0)
        /\ (lead => ((dd = "none" \/ pk) /\ clash = "no" /\ ~b1v))
        (* a packed chain, also three levels deep with a field in front of the base of the middle type *)
        /\ (pk => (~b1 /\ clash = "no" /\ dvis = "pub" /\ xdn = "xd" /\ ~split /\ ~eb /\ v \in {"none", "same", "ext"}
                    /\ ddv = "no" /\ dd \in {"none", "plain"} /\ nb0 \in {1, 2}))
        /\ input = MkInput(ptr, nb0, v, k, b1, b1v, clash, dd, ddv, split, lead, eb, dvis, b1n, xdn, pk)
  /\ InitRest

MCSpec == MCInit /\ [][Next]_vars /\ WF_vars(Next)

(* ------------------------------ properties ----------------------------- *)
Crate == [ptr |-> input.ptr, files |-> out, exts |-> ExtMap(input), real |-> <<>>]
AllTypes == UNION {{<<mi, di>> : di \in TypeDefsOf(input.mods[mi])} : mi \in DOMAIN input.mods}
ModOfT(x) == input.mods[x[1]]
DefOfT(x) == input.mods[x[1]].defs[x[2]]
PathOf(x) == Append(ModOfT(x).path, DefOfT(x).name)

(* C06 for one type definition against the emitted crate                   *)
P_C06(crate, inp, x) ==
  LET m == inp.mods[x[1]]
      d == m.defs[x[2]]
      it == CrateItemAt(crate, Append(m.path, d.name))
      l == RustItem(crate, Append(m.path, d.name), 8)
      bi == FirstIdx(d.fields, LAMBDA f : f.base)
      baseHas == FirstBaseHasVft(inp, m, d)
  IN /\ VftCompatible(inp, m, d)
     /\ it.k = "struct"
     /\ baseHas =>
          (* no pointer field of its own: the only fields called `vftable` are the ones the description itself declares *)
          /\ Cardinality({i \in DOMAIN it.fields : it.fields[i].name = "vftable"})
               = Cardinality({i \in DOMAIN d.fields : d.fields[i].name = "vftable"})
          /\ it.vftacc.has /\ it.vftacc.via = d.fields[bi].name
          /\ it.vftacc.ty = RCPtr(RRaw(Append(m.path, (IF d.vft.has THEN d.name ELSE "?") \o "Vftable"))) \/ ~d.vft.has
     /\ (~baseHas /\ d.vft.has) =>
          /\ it.fields[1].name = "vftable" /\ l.offs[1] = 0
          /\ Cardinality({i \in DOMAIN it.fields : it.fields[i].name = "vftable"}) = 1
          /\ it.vftacc.has /\ it.vftacc.via = ""
     /\ (~baseHas /\ ~d.vft.has) => ~it.vftacc.has

(* C07 for one type definition                                             *)
P_C07(crate, inp, x) ==
  LET m == inp.mods[x[1]]
      d == m.defs[x[2]]
      p == Append(m.path, d.name)
      it == CrateItemAt(crate, p)
      exp == SelectSeq(EffFuncs(inp, p, 8), LAMBDA e : e.field # "")
      fwd == SelectSeq(it.methods, LAMBDA mm : mm.body.k = "field")
      want == ExpectedAsRefs(inp, p)
      got == {[ty |-> it.asrefs[i].ty.p, path |-> it.asrefs[i].path] : i \in {j \in DOMAIN it.asrefs : ~it.asrefs[j].conflict}}
  IN /\ Len(exp) = Len(fwd)
     /\ \A i \in DOMAIN exp : fwd[i].name = exp[i].name /\ fwd[i].body.f = exp[i].field /\ fwd[i].body.fn = exp[i].orig
                              /\ fwd[i].vis = "pub"
     /\ got = want

Inv_C06 ==
  Terminal =>
    /\ (\E x \in AllTypes : ~VftCompatible(input, ModOfT(x), DefOfT(x))) => Rejected
    /\ Accepted => \A x \in AllTypes : P_C06(Crate, input, x)

Inv_C07 == Accepted => \A x \in AllTypes : P_C07(Crate, input, x)

(* C16 through inheritance: a slot keeps its convention in every derived table *)
Inv_C16 ==
  Accepted =>
    \A x \in AllTypes :
       LET d == DefOfT(x)
           tab == CrateItemAt(Crate, Append(ModOfT(x).path, d.name \o "Vftable"))
           sigs == OwnTableSigs(input, ModOfT(x), d.vft)
       IN d.vft.has => \A i \in DOMAIN sigs : tab.fields[i].ty.cc = sigs[i].cc

PViol == (IF Inv_C06 THEN {} ELSE {"C06"}) \cup (IF Inv_C07 THEN {} ELSE {"C07"})
         \cup (IF Inv_C16 THEN {} ELSE {"C16"})

RegView ==
  LET ps == {p \in DOMAIN reg : reg[p].cat # "pre"}
  IN {[path |-> p, cat |-> reg[p].cat, st |-> reg[p].st, vis |-> reg[p].vis, res |-> reg[p].res] : p \in ps}

TypeOracle(x) ==
  LET d == DefOfT(x)
      M == ModOfT(x)
      p == PathOf(x)
      bi == FirstIdx(d.fields, LAMBDA f : f.base)
  IN [name |-> d.name, path |-> p,
      compatible |-> VftCompatible(input, M, d),
      baseHasVft |-> FirstBaseHasVft(input, M, d),
      ownBlock |-> d.vft.has,
      firstBase |-> IF bi = 0 THEN "" ELSE d.fields[bi].name,
      table |-> [i \in DOMAIN EffTable(input, p, 8) |->
                   [name |-> EffTable(input, p, 8)[i].name, cc |-> EffTable(input, p, 8)[i].cc,
                    pad |-> EffTable(input, p, 8)[i].pad]],
      baseTable |-> LET bt == FirstBaseType(input, M, d)
                    IN IF bt # TNone /\ bt.k = "raw"
                       THEN [i \in DOMAIN EffTable(input, bt.p, 8) |-> [name |-> EffTable(input, bt.p, 8)[i].name,
                                                                        cc |-> EffTable(input, bt.p, 8)[i].cc]]
                       ELSE <<>>,
      exposed |-> SelectSeq(EffFuncs(input, p, 8), LAMBDA e : e.field # ""),
      asrefs |-> ExpectedAsRefs(input, p)]

ReplayRecord ==
  [group |-> "inherit", input |-> input, order |-> added, sched |-> hist,
   accepted |-> Accepted, err |-> err, pviol |-> IF Terminal THEN PViol ELSE {},
   oracle |-> [types |-> {TypeOracle(x) : x \in AllTypes},
               mustReject |-> \E x \in AllTypes : ~VftCompatible(input, ModOfT(x), DefOfT(x)),
               kf |-> <<>>],
   mirror |-> [reg |-> RegView, out |-> out]]

Replay == Terminal => PrintT(<<"REPLAY", ToJson(ReplayRecord)>>)
View == StdView
=============================================================================
