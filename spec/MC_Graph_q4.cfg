SPECIFICATION MCSpec
CONSTANTS
  SpuriousPass = FALSE
  AllSchedules = TRUE
  PermuteModules = FALSE
  N = 3
  Kinds = {"base0", "val"}
  VftTypes = {1, 2}
  FnKinds = {}
  FnOwners = {}
  Twins = {"none"}
  TwoModules = FALSE
  Ptrs = {4}
INVARIANTS Inv_Passes Replay
CHECK_DEADLOCK FALSE
