SPECIFICATION MCSpec
CONSTANTS
  SpuriousPass = FALSE
  AllSchedules = FALSE
  PermuteModules = FALSE
  TypeNames = {"X"}
  DefSets <- AllDefSets
  UseSeqs <- QUseSeqs
  Perts <- OrderPerts
  Ptrs = {4}
INVARIANTS Replay
CHECK_DEADLOCK FALSE
VIEW View
