SPECIFICATION MCSpec
CONSTANTS
  SpuriousPass = FALSE
  AllSchedules = TRUE
  PermuteModules = FALSE
  MaxFields = 2
  Addrs <- Q2Sizes
  Sizes <- Q2Sizes
  Aligns <- Q2Sizes
  Palette <- Q5Palette
  Ptrs = {4, 8}
  WithVft = {FALSE, TRUE}
  WithPacked = {FALSE}
  Names = {"f"}
INVARIANTS Inv_RustDefined Replay
CHECK_DEADLOCK FALSE
VIEW View
