SPECIFICATION MCSpec
CONSTANTS
  SpuriousPass = FALSE
  AllSchedules = TRUE
  PermuteModules = FALSE
  MaxFields = 2
  Addrs <- QAddrs
  Sizes <- T3Sizes
  Aligns <- T3Aligns
  Palette <- T3Palette
  Ptrs = {4, 8}
  WithVft = {FALSE, TRUE}
  WithPacked = {FALSE, TRUE}
  Names = {"f", "_"}
INVARIANTS Inv_RustDefined Replay
CHECK_DEADLOCK FALSE
VIEW View
