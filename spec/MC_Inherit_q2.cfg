SPECIFICATION MCSpec
CONSTANTS
  SpuriousPass = FALSE
  AllSchedules = FALSE
  PermuteModules = FALSE
  NB0 = {0, 1, 2, 3}
  Variants = {"none", "same", "ext", "extm0", "emptyblk", "recv"}
  WithB1 = {FALSE, TRUE}
  B1Vft = {FALSE, TRUE}
  Clash = {"no"}
  DDs = {"none", "plain", "diamond"}
  DDVft = {"no"}
  B1Names = {"b1"}
  SameName = TRUE
  XdNames = {"xd"}
  Packs = {FALSE}
  Ptrs = {4, 8}
  Lead = {FALSE, TRUE}
  EmptyBlocks = {FALSE, TRUE}
  Split = {TRUE}
INVARIANTS Replay
CHECK_DEADLOCK FALSE
VIEW View
