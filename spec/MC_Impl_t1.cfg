SPECIFICATION MCSpec
CONSTANTS
  SpuriousPass = FALSE
  AllSchedules = TRUE
  PermuteModules = FALSE
  MaxP = 6
  Recvs = {"none", "const", "mut"}
  Rets = {"none", "u32", "ptr", "missing", "pvoid"}
  Addrs <- TAddrs
  Seconds = {"none", "distinct", "dup", "inherited", "blockaddr", "twoaddr", "twoblocks", "twoblocksdup", "implenum", "implmissing", "implenumbad"}
  Bad = {0, 1, 2, 3, 4, 5, 6}
  Singles = {"none", "type", "enum", "enumnc", "enumneg", "opaque"}
  EvalKinds = {"none", "scalar", "ptr", "arr", "struct", "missing", "two", "readdr"}
  Ptrs = {4, 8}
INVARIANTS Replay
CHECK_DEADLOCK FALSE
VIEW View
