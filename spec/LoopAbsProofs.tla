--------------------------- MODULE LoopAbsProofs ---------------------------
(***************************************************************************)
(* TLAPS proofs about LoopAbs.tla:  the number of passes of the resolution *)
(* loop never exceeds (size of the first worklist) + X + 1, for a worklist *)
(* of ANY finite size.  Checked by `tlapm LoopAbsProofs.tla`.              *)
(***************************************************************************)
EXTENDS LoopAbs, FiniteSetTheorems, TLAPS

LEMMA Shrinks ==
  ASSUME NEW S, IsFiniteSet(S), NEW V \in SUBSET S, V # S
  PROVE  IsFiniteSet(V) /\ Cardinality(V) \in Nat /\ Cardinality(V) + 1 <= Cardinality(S)
<1>1. Cardinality(S) \in Nat BY FS_CardinalityType
<1>2. IsFiniteSet(V) /\ Cardinality(V) <= Cardinality(S) /\ (Cardinality(S) = Cardinality(V) => S = V)
  BY FS_Subset
<1>3. Cardinality(V) \in Nat BY <1>2, FS_CardinalityType
<1> QED BY <1>1, <1>2, <1>3

THEOREM InvHolds == ASpec => []AInv
<1>1. AInit => AInv
  BY XNat, FS_EmptySet DEF AInit, AInv, TypeOK, Budget
<1>2. AInv /\ [ANext]_avars => AInv'
  <2> SUFFICES ASSUME AInv, [ANext]_avars PROVE AInv' OBVIOUS
  <2> USE XNat DEF AInv, TypeOK, Budget
  <2>0. Cardinality(U) \in Nat BY FS_CardinalityType
  <2>1. CASE Load
    <3>1. IsFiniteSet(U') /\ c0' = Cardinality(U') /\ x' = x
          /\ IF U' = {} THEN st' = "after" /\ n' = 0 ELSE st' = "run" /\ n' = 1
      BY <2>1 DEF Load
    <3>2. Cardinality(U') \in Nat BY <3>1, FS_CardinalityType
    <3>3. TypeOK' BY <3>1, <3>2 DEF TypeOK
    <3>4. Budget'
      <4>1. CASE U' = {} BY <4>1, <3>1, <3>2 DEF Budget
      <4>2. CASE U' # {} BY <4>2, <3>1, <3>2 DEF Budget
      <4> QED BY <4>1, <4>2
    <3> QED BY <3>3, <3>4
  <2>2. CASE LoadFail BY <2>2, <2>0 DEF LoadFail
  <2>3. CASE Progress
    <3>1. U' \in SUBSET U /\ U' # U /\ n' = n + 1 /\ st' = st /\ x' = x /\ c0' = c0
      BY <2>3 DEF Progress
    <3>2. IsFiniteSet(U') /\ Cardinality(U') \in Nat /\ Cardinality(U') + 1 <= Cardinality(U)
      BY <3>1, Shrinks
    <3>3. TypeOK' BY <3>1, <3>2 DEF TypeOK
    <3>4. Budget' BY <3>1, <3>2, <2>0 DEF Budget
    <3> QED BY <3>3, <3>4
  <2>4. CASE Finish
    <3>1. Cardinality({}) = 0 /\ IsFiniteSet({}) BY FS_EmptySet
    <3> QED BY <2>4, <2>0, <3>1 DEF Finish
  <2>5. CASE Stuck BY <2>5, <2>0 DEF Stuck
  <2>6. CASE Spurious
    <3>1. U' = U /\ n' = n + 1 /\ st' = st /\ x' = x + 1 /\ c0' = c0 /\ x < X BY <2>6 DEF Spurious
    <3>2. TypeOK' BY <3>1 DEF TypeOK
    <3>3. Budget' BY <3>1, <2>0 DEF Budget
    <3> QED BY <3>2, <3>3
  <2>7. CASE Abort
    <3>1. U' \in SUBSET U /\ st' = "failed" /\ n' = n /\ x' = x /\ c0' = c0 BY <2>7 DEF Abort
    <3>2. IsFiniteSet(U') /\ Cardinality(U') <= Cardinality(U) BY <3>1, FS_Subset
    <3>3. Cardinality(U') \in Nat BY <3>2, FS_CardinalityType
    <3>4. TypeOK' BY <3>1, <3>2 DEF TypeOK
    <3>5. Budget' BY <3>1, <3>2, <3>3, <2>0 DEF Budget
    <3> QED BY <3>4, <3>5
  <2>8. CASE LateFail BY <2>8, <2>0 DEF LateFail
  <2>9. CASE UNCHANGED avars BY <2>9 DEF avars
  <2> QED BY <2>1, <2>2, <2>3, <2>4, <2>5, <2>6, <2>7, <2>8, <2>9 DEF ANext
<1> QED BY <1>1, <1>2, PTL DEF ASpec

(* the number of passes never exceeds the size of the first worklist + X + 1 *)
THEOREM Bounded == ASpec => []PassBound
<1>1. AInv => PassBound
  <2> SUFFICES ASSUME AInv PROVE PassBound OBVIOUS
  <2>1. Cardinality(U) \in Nat BY FS_CardinalityType DEF AInv, TypeOK
  <2> QED BY <2>1, XNat DEF AInv, TypeOK, Budget, PassBound
<1> QED BY <1>1, InvHolds, PTL
=============================================================================
