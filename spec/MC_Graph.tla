------------------------------ MODULE MC_Graph ------------------------------
(***************************************************************************)
(* Dependency graphs (C09, C10, termination for C12).                      *)
(* N types A, B, ... each with at most one reference field (by value,      *)
(* array, pointer, base, pointer to another type's generated vftable       *)
(* struct, or an undefined name), an optional vftable block and an         *)
(* optional impl function mentioning another type; one or two modules.     *)
(* Every resolution schedule and (optionally) every module-addition order  *)
(* is explored.                                                            *)
(***************************************************************************)
EXTENDS Det, Props, Json

CONSTANTS N,          \* number of types
          Kinds,      \* field kinds used
          VftTypes,   \* indices of the types that may declare a vftable block
          FnKinds,    \* impl-function mention kinds
          FnOwners,   \* indices of the types that may have an impl function
          TwoModules, \* split the types over two modules
          Twins,      \* "none" | "same" | "other": a declared type named like A's generated vftable struct
          Ptrs

Names == <<"A", "B", "C", "D", "E", "F">>
Undefined == "Q"
Targets == {Names[i] : i \in 1..N} \cup {Undefined}

Leaf == Field("leaf", "pub", <<>>, TCPtr(TNm("u8")), None, FALSE)

FieldOf(kind, tgt) ==
  CASE kind = "val"  -> <<Field("r", "pub", <<>>, TNm(tgt), None, FALSE)>>
    [] kind = "arr"  -> <<Field("r", "pub", <<>>, TArr(TNm(tgt), 2), None, FALSE)>>
    [] kind = "arr0" -> <<Field("r", "pub", <<>>, TArr(TNm(tgt), 0), None, FALSE)>>
    [] kind = "ptr"  -> <<Field("r", "pub", <<>>, TMPtr(TNm(tgt)), None, FALSE)>>
    [] kind = "base" -> <<Field("r", "pub", <<>>, TNm(tgt), None, TRUE)>>
    [] kind = "base0" -> <<Field("r", "pub", <<>>, TNm(tgt), 0, TRUE)>>
    [] kind = "vptr" -> <<Field("r", "pub", <<>>, TCPtr(TNm(tgt \o "Vftable")), None, FALSE)>>
    [] OTHER -> <<>>

VftBlock == Vft(None, <<Func("vf", "pub", <<>>, <<ArgM>>, TNone, None, None, "")>>)

FnOf(kind, tgt) ==
  CASE kind = "param" -> <<Func("g", "pub", <<>>, <<ArgC, Arg("x", TCPtr(TNm(tgt)))>>, TNone, 4096, None, "")>>
    [] kind = "ret"   -> <<Func("g", "pub", <<>>, <<ArgC>>, TMPtr(TNm(tgt)), 4096, None, "")>>
    [] kind = "vparam" -> <<Func("g", "pub", <<>>, <<ArgC, Arg("x", TCPtr(TNm(tgt \o "Vftable")))>>, TNone, 4096, None, "")>>
    [] kind = "vret"  -> <<Func("g", "pub", <<>>, <<ArgC>>, TCPtr(TNm(tgt \o "Vftable")), 4096, None, "")>>
    [] OTHER -> <<>>

Shapes == [kind : Kinds \cup {"none"}, tgt : Targets, vft : BOOLEAN, fk : FnKinds \cup {"none"}, ft : Targets]

(* canonical representatives only: the target is irrelevant when the kind is "none" *)
ShapeOk(i, s) ==
  /\ (s.kind = "none" => s.tgt = Names[1])
  /\ (s.fk = "none" => s.ft = Names[1])
  /\ (s.vft => i \in VftTypes)
  /\ (s.fk # "none" => i \in FnOwners)
  /\ (s.kind = "vptr" => s.tgt # Undefined)
  /\ (s.fk \in {"vparam", "vret"} => s.ft # Undefined)

TypeOf(i, s) ==
  [TypeDef(Names[i], "pub", (IF s.kind \in {"base", "base0"} THEN <<>> ELSE <<Leaf>>) \o FieldOf(s.kind, s.tgt)
                             \o (IF s.kind \in {"base", "base0"} THEN <<Leaf>> ELSE <<>>))
     EXCEPT !.vft = IF s.vft THEN VftBlock ELSE NoVft]

(* a declared `AVftable` next to A: "same" equals what pyxis generates for an empty vftable block (A then declares an *)
(* empty block), "other" differs from it.  Either way two declarations produce one item: always an error.           *)
TwinDefs(tw) ==
  CASE tw = "same"  -> <<TypeDef(Names[1] \o "Vftable", "pub", <<>>)>>
    [] tw = "other" -> <<TypeDef(Names[1] \o "Vftable", "pub", <<Leaf>>)>>
    [] OTHER -> <<>>

MkInput(ptr, ss, tw) ==
  LET defs0 == [i \in 1..N |-> TypeOf(i, ss[i])]
      defs == (IF tw = "same" /\ defs0[1].vft.has THEN <<[defs0[1] EXCEPT !.vft = Vft(None, <<>>)]>> \o Tail(defs0) ELSE defs0) \o TwinDefs(tw)
      impls == Flatten([i \in 1..N |-> IF ss[i].fk = "none" THEN <<>>
                                       ELSE <<Impl(Names[i], FnOf(ss[i].fk, ss[i].ft))>>])
      one == [Module(<<"m">>, <<>>, defs) EXCEPT !.impls = impls]
      (* two modules: the first type alone in `a`, the rest in `b`; `a` imports module b, *)
      (* `b` imports the type a::A by name                                                *)
      ma == [Module(<<"a">>, <<<<"b">>>>, SubSeq(defs, 1, 1))
               EXCEPT !.impls = SelectSeq(impls, LAMBDA x : x.name = Names[1])]
      mb == [Module(<<"b">>, <<<<"a", Names[1]>>>>, SubSeq(defs, 2, Len(defs)))
               EXCEPT !.impls = SelectSeq(impls, LAMBDA x : x.name # Names[1])]
  IN [ptr |-> ptr, mods |-> IF TwoModules THEN <<ma, mb>> ELSE <<one>>]

ShapesFor(i) == IF i > N THEN {CHOOSE s \in Shapes : TRUE} ELSE {s \in Shapes : ShapeOk(i, s)}

MCInit ==
  /\ \E ptr \in Ptrs, s1 \in ShapesFor(1), s2 \in ShapesFor(2), s3 \in ShapesFor(3),
        s4 \in ShapesFor(4), s5 \in ShapesFor(5), tw \in Twins :
        /\ (tw # "none" => s1.vft)
        /\ input = MkInput(ptr, <<s1, s2, s3, s4, s5>>, tw)
  /\ InitRest

MCSpec == MCInit /\ [][Next]_vars /\ WF_vars(Next)

DetRun == DetRunOn(input)

(* ------------------------- C10: the oracle (Props.tla) ------------------ *)
AllDefs == AllDefsOf(input)
PathOfDef(x) == PathOfDefIn(input, x)
UnresolvablePaths == UnresolvablePathsOf(input)
FnNamesDefined == FnNamesDefinedIn(input)
Resolvable == ResolvableIn(input)
MentionsGenerated == MentionsGeneratedIn(input)

(* ------------------------------ invariants ----------------------------- *)
Inv_C09 == Terminal => (Accepted = DetRun.ok /\ (Accepted => out = DetRun.out))

NameErrors == {"nonterm", "unresolved-param", "unresolved-return", "unresolved-extern-value"}

Inv_C10 ==
  Terminal =>
    (* a build may also be rejected for its layout; C10 speaks about names and by-value cycles *)
    /\ Accepted => Resolvable
    /\ (Rejected /\ err \in NameErrors) => ~Resolvable
    /\ Accepted => \A x \in AllDefs : IsResolved(reg, PathOfDef(x))
    /\ (Rejected /\ err = "nonterm") => Unresolved(reg) = UnresolvablePaths

(* passes are bounded by the number of definitions (termination, C12)      *)
Inv_Passes == Len(hist) <= N + 3 + aux.extra /\ aux.extra <= 2

PViol ==
  (IF Inv_C09 THEN {} ELSE {"C09"}) \cup (IF Inv_C10 THEN {} ELSE {"C10"})

ReplayRecord ==
  [group |-> "graph", input |-> input, order |-> added, sched |-> hist,
   accepted |-> Accepted, err |-> err, pviol |-> IF Terminal THEN PViol ELSE {},
   oracle |-> [resolvable |-> Resolvable,
               unresolvable |-> UnresolvablePaths,
               fieldsOnly |-> FnNamesDefined,
               kf |-> IF MentionsGenerated THEN <<"C09:generated-name", "C10:generated-name">> ELSE <<>>,
               canon |-> [ok |-> DetRun.ok, err |-> DetRun.err]],
   mirror |-> [unres |-> Unresolved(reg), out |-> out]]

Replay == Terminal => PrintT(<<"REPLAY", ToJson(ReplayRecord)>>)

(* with the VIEW below the state graph is collapsed over schedules: TLC still takes every *)
(* pick in every pass (so PViol is evaluated on every distinct terminal state) but prints  *)
(* one witness schedule per distinct terminal state                                        *)

View == StdView

=============================================================================
