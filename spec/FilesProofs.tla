---------------------------- MODULE FilesProofs ----------------------------
(***************************************************************************)
(* TLAPS proofs about Files.tla, for directory lists of ANY length: a      *)
(* source file's module is written to the same relative place, and the     *)
(* file <-> module mapping is a bijection (so two different source files   *)
(* never share an output place).  Checked by `tlapm FilesProofs.tla`.      *)
(***************************************************************************)
EXTENDS FilesCore, SequenceTheorems, TLAPS

LEMMA InitOfAppend ==
  ASSUME NEW S, NEW d \in Seq(S), NEW s \in S
  PROVE  /\ Len(Append(d, s)) = Len(d) + 1
         /\ Append(d, s)[Len(Append(d, s))] = s
         /\ SubSeq(Append(d, s), 1, Len(Append(d, s)) - 1) = d
<1>1. Len(Append(d, s)) = Len(d) + 1 /\ Append(d, s) \in Seq(S) BY AppendProperties
<1>2. Append(d, s)[Len(d) + 1] = s BY AppendProperties
<1>3. Len(d) \in Nat BY LenProperties
<1>4. Len(Append(d, s)) - 1 = Len(d) BY <1>1, <1>3
<1>5. SubSeq(Append(d, s), 1, Len(d)) = d
  <2>1. SubSeq(Append(d, s), 1, Len(d)) \in Seq(S) /\ Len(SubSeq(Append(d, s), 1, Len(d))) = Len(d)
        /\ \A i \in 1..Len(d) : SubSeq(Append(d, s), 1, Len(d))[i] = Append(d, s)[i]
    BY <1>1, <1>3, SubSeqProperties
  <2>2. \A i \in 1..Len(d) : Append(d, s)[i] = d[i] BY AppendProperties
  <2> QED BY <2>1, <2>2, <1>3, SeqEqual
<1> QED BY <1>1, <1>2, <1>4, <1>5

THEOREM SamePlace ==
  ASSUME NEW S, NEW d \in Seq(S), NEW s \in S
  PROVE  /\ SamePlaceSeq(SrcFile(d, s))
         /\ RoundTrip(SrcFile(d, s))
BY InitOfAppend DEF SamePlaceSeq, OutDirs, OutName, ModuleOfFile, SrcFile, RoundTrip, FileOfModule

THEOREM ModuleInjective ==
  ASSUME NEW S, NEW d1 \in Seq(S), NEW s1 \in S, NEW d2 \in Seq(S), NEW s2 \in S,
         ModuleOfFile(SrcFile(d1, s1)) = ModuleOfFile(SrcFile(d2, s2))
  PROVE  SrcFile(d1, s1) = SrcFile(d2, s2)
<1>1. RoundTrip(SrcFile(d1, s1)) /\ RoundTrip(SrcFile(d2, s2)) BY SamePlace
<1> QED BY <1>1 DEF RoundTrip
=============================================================================
