------------------------------- MODULE Pyxis -------------------------------
(***************************************************************************)
(* pyxis as a transition system.                                           *)
(*                                                                         *)
(*   NewState ; AddModule* ; ( BeginPass ; Attempt* ; EndPass )* ;         *)
(*   ResolveExterns ; Emit                                                 *)
(*                                                                         *)
(* mirrors  SemanticState::new / add_module / build  and                   *)
(* backends::rust::write_module.  The nondeterminism is real: the order    *)
(* in which modules are added (file discovery order) and the order in      *)
(* which the unresolved items of a pass are attempted (HashMap iteration   *)
(* order, re-randomised per process).                                      *)
(***************************************************************************)
EXTENDS Emit

CONSTANTS PermuteModules,  \* TRUE: modules may be added in any order
          SpuriousPass,    \* TRUE: model the extra pass the code may take when the map was resized (see EndPass)
          AllSchedules     \* TRUE: every pick order in every pass; FALSE: one fixed order (groups whose
                           \* properties do not quantify over schedules; C09/C10/C12 always use TRUE)

VARIABLES input,   \* [ptr, mods : Seq(Module)]  -- chosen initially, never changes
          phase,   \* "adding" | "pass" | "externs" | "emit" | "done" | "failed"
          added,   \* sequence of module indices added so far
          mods,    \* path -> [mi, defs]  (SemanticState.modules; defs = definition_paths)
          reg,     \* the type registry
          start,   \* unresolved set at the beginning of the current pass
          todo,    \* items of the current pass not yet attempted
          hist,    \* schedule taken: per pass [s : unresolved set at its start, p : picks in order]
          err,     \* "" or the failure class
          out,     \* emitted files: a set of abstract files (each carries its path)
          aux      \* [insd : a registry insertion happened in this pass, extra : spurious passes taken]

vars == <<input, phase, added, mods, reg, start, todo, hist, err, out, aux>>

RootMods == (<<>> :> [mi |-> 0, defs |-> {<<n>> : n \in BuiltinNames}])

(* `input` is chosen by the model-checking module (MC_*.tla), which also  *)
(* defines the complete initial predicate  (\E ... : input = ...) /\ InitRest *)
InitRest ==
  /\ phase = "adding"
  /\ added = <<>>
  /\ mods = RootMods
  /\ reg = InitialReg
  /\ start = {}
  /\ todo = {}
  /\ hist = <<>>
  /\ err = ""
  /\ out = {}
  /\ aux = [insd |-> FALSE, extra |-> 0]

ModRec(mi) == input.mods[mi]

(* --------------------------- add_module -------------------------------- *)
(* extern values need an address, extern types a size and an alignment     *)
(* (non-negative); definitions are registered unresolved, then the extern  *)
(* types resolved.  add_item needs the parent module (always present) and  *)
(* TypeRegistry::add overwrites an existing entry of the same path.        *)
DupInModule(r, m) ==
  LET names == [i \in DOMAIN m.defs |-> m.defs[i].name] \o [i \in DOMAIN m.exts |-> m.exts[i].name]
  IN \/ \E i, j \in DOMAIN names : i # j /\ names[i] = names[j]
     \/ \E i \in DOMAIN names : Has(r, Join(m.path, names[i]))
     (* names that differ only by `r#` are one Rust identifier; so are two extern values of one name *)
     \/ CHECKNAMES /\ (HasDupNames(names) \/ HasDupNames(NamesOf(m.evals)))

AddModuleError(m) ==
  IF \E i \in DOMAIN m.evals : ~IsSome(m.evals[i].addr) THEN "extern-value-without-address"
  ELSE IF CHECKNEGADDR /\ \E i \in DOMAIN m.evals : m.evals[i].addr < 0 THEN "conv-extern-value-address"
  ELSE IF \E i \in DOMAIN m.exts : ~IsSome(m.exts[i].size) \/ ~IsSome(m.exts[i].align)
       THEN "extern-type-without-size-or-align"
  ELSE IF \E i \in DOMAIN m.exts : m.exts[i].size < 0 \/ m.exts[i].align < 0
       THEN "conv-extern"
  ELSE IF \E i \in DOMAIN m.exts : ~IsPow2(m.exts[i].align) THEN "extern-align-not-pow2"
  ELSE ""

RECURSIVE PutDefs(_, _, _, _, _)
PutDefs(r, mi, m, di, n) ==
  IF di > n THEN r
  ELSE PutDefs(RegPut(r, Join(m.path, m.defs[di].name), UnresolvedItem(mi, di, m.defs[di])),
               mi, m, di + 1, n)
RECURSIVE PutExts(_, _, _, _, _)
PutExts(r, mi, m, ei, n) ==
  IF ei > n THEN r
  ELSE PutExts(RegPut(r, Join(m.path, m.exts[ei].name), ExternItem(mi, ei, m.exts[ei])),
               mi, m, ei + 1, n)

AddModule(mi) ==
  LET m == ModRec(mi)
      e == IF AddModuleError(m) # "" THEN AddModuleError(m)
           ELSE IF CHECKIMPLS /\ ImplOrphan(m) THEN "impl-without-type"
           ELSE IF CHECKDUP /\ DupInModule(reg, m) THEN "duplicate-definition" ELSE ""
      paths == {Join(m.path, m.defs[i].name) : i \in DOMAIN m.defs}
                 \cup {Join(m.path, m.exts[i].name) : i \in DOMAIN m.exts}
  IN /\ phase = "adding"
     /\ mi \in DOMAIN input.mods
     /\ mi \notin Range(added)
     /\ PermuteModules \/ mi = Len(added) + 1
     /\ added' = Append(added, mi)
     /\ IF e # ""
        THEN /\ phase' = "failed" /\ err' = e
             /\ UNCHANGED <<mods, reg>>
        ELSE /\ mods' = [q \in (DOMAIN mods) \cup {m.path} |->
                           IF q = m.path THEN [mi |-> mi, defs |-> paths] ELSE mods[q]]
             /\ reg' = PutExts(PutDefs(reg, mi, m, 1, Len(m.defs)), mi, m, 1, Len(m.exts))
             /\ UNCHANGED <<phase, err>>
     /\ UNCHANGED <<input, start, todo, hist, out, aux>>

(* ------------------------------ build ---------------------------------- *)
BeginPass ==
  /\ phase = "adding"
  /\ Len(added) = Len(input.mods)
  /\ LET u == Unresolved(reg)
     IN IF u = {} THEN /\ phase' = "externs" /\ UNCHANGED <<start, todo, hist>>
        ELSE /\ phase' = "pass" /\ start' = u /\ todo' = u /\ hist' = Append(hist, [s |-> u, p |-> <<>>])
  /\ UNCHANGED <<input, added, mods, reg, err, out, aux>>

ApplyIns(r, ins) == IF ins = <<>> THEN r ELSE RegPut(r, ins[1][1], ins[1][2])

(* add_item also records the path in the parent module's definition_paths *)
NoteDefs(ms, ins) ==
  IF ins = <<>> THEN ms
  ELSE LET pp == Parent(ins[1][1])
       IN [ms EXCEPT ![pp] = [@ EXCEPT !.defs = @ \cup {ins[1][1]}]]

DoAttempt(p) ==
  LET item == reg[p]
      owner == mods[Parent(p)].mi
      m == ModRec(owner)
      d == ModRec(item.src[1]).defs[item.src[2]]
      a == Attempt(reg, input.ptr, m, item.src, p, d)
      reg1 == ApplyIns(reg, a.ins)
  IN /\ hist' = [hist EXCEPT ![Len(hist)] = [@ EXCEPT !.p = Append(@, p)]]
     /\ aux' = IF item.st = "U" /\ a.ins # <<>> THEN [aux EXCEPT !.insd = TRUE] ELSE aux
     /\ todo' = todo \ {p}
     /\ IF item.st = "R"     \* replaced by a resolved entry earlier in this pass: skipped
        THEN UNCHANGED <<reg, mods, phase, err>>
        ELSE /\ mods' = NoteDefs(mods, a.ins)
             /\ CASE a.r = "ok"    -> /\ reg' = [reg1 EXCEPT ![p] = [@ EXCEPT !.st = "R", !.res = a.res]]
                                      /\ UNCHANGED <<phase, err>>
                  [] a.r = "defer" -> /\ reg' = reg1 /\ UNCHANGED <<phase, err>>
                  [] a.r = "fail"  -> /\ reg' = reg1 /\ phase' = "failed" /\ err' = a.why

AttemptStep ==
  /\ phase = "pass"
  /\ \E p \in (IF AllSchedules \/ todo = {} THEN todo ELSE {CHOOSE q \in todo : TRUE}) : DoAttempt(p)
  /\ UNCHANGED <<input, added, start, out>>

EndPass ==
  /\ phase = "pass"
  /\ todo = {}
  /\ LET u == Unresolved(reg)
         next == /\ start' = u /\ todo' = u /\ hist' = Append(hist, [s |-> u, p |-> <<>>]) /\ UNCHANGED <<phase, err>>
     IN IF u = start
        THEN (* no progress: the code compares the two Vecs *including order*; when an insertion     *)
             (* (even the re-insertion of a generated item) made the HashMap resize, the order has   *)
             (* changed and the loop takes one more pass before it reports the error                 *)
             \/ /\ phase' = "failed" /\ err' = "nonterm" /\ UNCHANGED <<start, todo, hist, aux>>
             \/ /\ SpuriousPass /\ aux.insd /\ aux.extra < 2
                /\ next /\ aux' = [insd |-> FALSE, extra |-> aux.extra + 1]
        ELSE IF u = {}
        THEN /\ phase' = "externs" /\ UNCHANGED <<start, todo, hist, err, aux>>
        ELSE /\ next /\ aux' = [aux EXCEPT !.insd = FALSE]
  /\ UNCHANGED <<input, added, mods, reg, out>>

(* resolve_extern_values: every extern value's type must resolve now       *)
ExternsOk ==
  \A q \in DOMAIN mods : q # <<>> =>
     LET m == ModRec(mods[q].mi)
     IN \A i \in DOMAIN m.evals : ResolveTy(reg, ScopeOf(m), m.evals[i].ty) # TNone

ResolveExterns ==
  /\ phase = "externs"
  /\ IF ExternsOk THEN phase' = "emit" /\ UNCHANGED err
     ELSE phase' = "failed" /\ err' = "unresolved-extern-value"
  /\ UNCHANGED <<input, added, mods, reg, start, todo, hist, out, aux>>

EmitAll ==
  /\ phase = "emit"
  /\ out' = {EmitModule(reg, input.ptr, ModRec(mods[q].mi), mods[q].defs) :
                 q \in (DOMAIN mods) \ {<<>>}}
  /\ phase' = "done"
  /\ UNCHANGED <<input, added, mods, reg, start, todo, hist, err, aux>>

Terminal == phase \in {"done", "failed"}

Next ==
  \/ \E mi \in DOMAIN input.mods : AddModule(mi)
  \/ BeginPass \/ AttemptStep \/ EndPass \/ ResolveExterns \/ EmitAll
  \/ (Terminal /\ UNCHANGED vars)

SpecFrom(InitPred) == InitPred /\ [][Next]_vars /\ WF_vars(Next)

(* the build always terminates (C10, C12)                                  *)
Termination == <>Terminal

(* every reachable non-terminal state has a successor (totality, C12)      *)
Total == Terminal \/ ENABLED (\E mi \in DOMAIN input.mods : AddModule(mi))
           \/ ENABLED BeginPass \/ ENABLED AttemptStep \/ ENABLED EndPass
           \/ ENABLED ResolveExterns \/ ENABLED EmitAll

(* standard VIEW: schedule history hidden, and the bookkeeping of the last pass ignored once *)
(* the behaviour is over, so one input has one terminal state per distinct outcome          *)
StdView == <<input, phase, added, mods, reg, IF Terminal THEN {} ELSE start, IF Terminal THEN {} ELSE todo, err, out,
             IF Terminal THEN 0 ELSE aux>>

Accepted == phase = "done"
Rejected == phase = "failed"

(***************************************************************************)
(* Refinement: the machine above implements the abstract worklist loop of  *)
(* LoopAbs.tla (attempts inside a pass are stuttering steps of it), whose  *)
(* pass bound is proved for worklists of any size in LoopAbsProofs.tla.    *)
(* TLC checks `RefinesLoopAbs` as a property in the graph configurations.  *)
(***************************************************************************)
LA == INSTANCE LoopAbs WITH
        X  <- 2,
        U  <- IF phase = "pass" \/ (phase = "failed" /\ err = "nonterm") THEN start ELSE {},
        st <- CASE phase = "adding" -> "load"
                [] phase = "pass"   -> "run"
                [] phase = "failed" -> "failed"
                [] OTHER            -> "after",
        n  <- Len(hist),
        x  <- aux.extra,
        c0 <- IF hist = <<>> THEN 0 ELSE Cardinality(hist[1].s)

RefinesLoopAbs == LA!ASpec
LoopAbsInv == LA!AInv /\ LA!PassBound
=============================================================================
