SPECIFICATION Spec
CONSTANTS
  Rot = 16
INVARIANTS Replay
CHECK_DEADLOCK FALSE
