SPECIFICATION Spec
CONSTANTS
  Rot = 13
INVARIANTS Replay
CHECK_DEADLOCK FALSE
