----------------------------- MODULE MC_Parse -----------------------------
(***************************************************************************)
(* C18 (and the position clause of C12) decided on the specification of    *)
(* the language, Parse.tla.                                                *)
(*                                                                         *)
(* Bases: small modules that together use every production of the grammar, *)
(* each built with the syntax-directed constructors X_* (tokens + abstract  *)
(* module).  TLC checks                                                    *)
(*   RoundTrip : ParseToks(tokens of b) = accept with exactly b's module   *)
(* and enumerates EVERY single-token mutation of every base (deletion,     *)
(* swap of neighbours, replacement by / insertion of each token of the     *)
(* alphabet).  For each mutant the specification decides: a module of the  *)
(* language (and which abstract module) or not (and at which token).  The  *)
(* harness prints the tokens with random legal trivia and spellings, runs  *)
(* parser::parse_str and compares verdict, module and error position.      *)
(***************************************************************************)
EXTENDS Parse, Json

CONSTANTS AlphaSet,   \* "small" | "full": the replacement / insertion alphabet
          BaseSet     \* {} (all bases) or a set of base indices

VARIABLES st
vars == <<st>>

N1(x) == <<x>>                      \* a name without generics
TyU8 == X_Nm(N1("u8"))
TyU32 == X_Nm(N1("u32"))

AG(parts) == X_Attrs(<<X_AttrGroup(FALSE, parts)>>)
AGI(parts) == X_AttrGroup(TRUE, parts)

Bases == <<
  (* 1: inner attributes and use paths *)
  X_Mod(X_Attrs(<<AGI(<<X_AAs("doc", X_EStr(" m"))>>), AGI(<<X_AId("a"), X_AFn("b", <<X_EInt(NumInt(1))>>)>>)>>),
        <<It("use", X_Use(<<N1("a"), <<"b", "<", "c", ">">>>>)), It("use", X_Use(<<N1("x")>>))>>),
  (* 2: extern types and extern values *)
  X_Mod(NoAttrs,
        <<It("ext", X_ExtType(AG(<<X_AFn("size", <<X_EInt(NumInt(8))>>), X_AFn("align", <<X_EInt(NumInt(4))>>)>>), N1("E"))),
          It("ext", X_ExtType(NoAttrs, <<"V", "<", "T", ">">>)),
          It("eval", X_ExtVal(AG(<<X_AFn("address", <<X_EInt(NumInt(4096))>>)>>), "pub", "g", X_MPtr(X_Nm(N1("E"))))),
          It("eval", X_ExtVal(NoAttrs, "priv", "h", X_Arr(TyU8, NumInt(4))))>>),
  (* 3: a type with fields, addresses, `_`, unknown, nested pointer / array types *)
  X_Mod(NoAttrs,
        <<It("def", X_Type(AG(<<X_AFn("size", <<X_EInt(NumInt(16))>>)>>), "pub", "T",
             <<X_Field(AG(<<X_AFn("address", <<X_EInt(NumInt(8))>>)>>), "pub", "a", TyU32),
               X_Field(NoAttrs, "priv", "_", X_Unk(NumInt(4))),
               X_Field(NoAttrs, "priv", "b", X_CPtr(X_Arr(X_MPtr(X_Nm(N1("X"))), NumInt(2))))>>))>>),
  (* 4: empty type, enum with every kind of value *)
  X_Mod(NoAttrs,
        <<It("def", X_TypeSemi(NoAttrs, "priv", "S")),
          It("def", X_Enum(AG(<<X_AId("copyable")>>), "pub", "K", TyU8,
             <<X_Var(NoAttrs, "A"), X_VarEq(AG(<<X_AId("default")>>), "B", X_EInt(NumInt(0 - 5))),
               X_VarEq(NoAttrs, "C", X_EId("x")), X_VarEq(NoAttrs, "D", X_EStr("s"))>>))>>),
  (* 5: vftable block *)
  X_Mod(NoAttrs,
        <<It("def", X_Type(NoAttrs, "priv", "V",
             <<X_Vft(NoAttrs, <<X_Func(AG(<<X_AFn("index", <<X_EInt(NumInt(2))>>)>>), "pub", "f", <<X_SelfC, X_Arg("a", TyU32)>>, X_MPtr(X_Nm(N1("V")))),
                                X_Func(NoAttrs, "priv", "g", <<X_SelfM>>, NoRet)>>),
               X_Field(NoAttrs, "priv", "x", TyU8)>>))>>),
  (* 6: impl block with attributes, a function named `_` *)
  X_Mod(NoAttrs,
        <<It("impl", X_Impl(AG(<<X_AId("cc")>>), "T",
             <<X_Func(AG(<<X_AFn("address", <<X_EInt(NumInt(1))>>)>>), "pub", "new",
                      <<X_Arg("a", X_Nm(N1("i32"))), X_Arg("b", X_CPtr(X_Nm(N1("T"))))>>, X_Nm(N1("T"))),
               X_Func(NoAttrs, "priv", "_", <<>>, NoRet)>>))>>),
  (* 7: the three backend forms *)
  X_Mod(NoAttrs,
        <<It("back", X_BackPro("rust", "p")), It("back", X_BackEpi("c", "e")),
          It("back", X_BackBraced("rust", <<<<"prologue", "a">>, <<"epilogue", "b">>, <<"prologue", "c">>>>)),
          It("back", X_BackBraced("x", <<>>))>>),
  (* 8: attribute shapes *)
  X_Mod(NoAttrs,
        <<It("def", X_TypeSemi(X_Attrs(<<X_AttrGroup(FALSE, <<X_AAs("a", X_EInt(NumInt(1))), X_AAs("b", X_EStr("s")), X_AAs("c", X_EId("d"))>>),
                                         X_AttrGroup(FALSE, <<X_AFn("e", <<>>), X_AFn("f", <<X_EInt(NumInt(1)), X_EStr("s"), X_EId("x")>>)>>),
                                         X_AttrGroup(FALSE, <<>>),
                                         (* the same attribute twice in a row, two equal doc lines: nothing is merged *)
                                         X_AttrGroup(FALSE, <<X_AId("p"), X_AId("p")>>),
                                         X_AttrGroup(FALSE, <<X_AAs("doc", X_EStr(" same"))>>), X_AttrGroup(FALSE, <<X_AAs("doc", X_EStr(" same"))>>)>>),
                             "priv", "Q"))>>),
  (* 9: generics hack and raw identifiers *)
  X_Mod(NoAttrs,
        <<It("use", X_Use(<<N1("r#mod"), N1("r#type")>>)),
          It("def", X_Type(NoAttrs, "priv", "G",
             <<X_Field(NoAttrs, "priv", "f", X_Nm(<<"Map", "<", "K", "<", "V", ">", ">">>)),
               X_Field(NoAttrs, "priv", "r#in", X_Nm(N1("r#type")))>>))>>),
  (* 10: `_` as a name wherever an identifier is parsed *)
  X_Mod(NoAttrs,
        <<It("def", X_Type(AG(<<X_AId("_")>>), "priv", "_", <<X_Field(NoAttrs, "priv", "_", TyU8)>>)),
          It("def", X_Enum(NoAttrs, "priv", "_", TyU8, <<X_Var(NoAttrs, "_")>>))>>),
  (* 11: integers at the edge of what fits *)
  X_Mod(NoAttrs,
        <<It("def", X_Type(NoAttrs, "priv", "W",
             <<X_Field(NoAttrs, "priv", "a", X_Arr(TyU8, Num("u64max", 0))), X_Field(NoAttrs, "priv", "b", X_Unk(NumInt(0)))>>)),
          It("def", X_TypeSemi(AG(<<X_AFn("x", <<X_EInt(Num("i64min", 0)), X_EInt(Num("i64max", 0))>>)>>), "priv", "Z"))>>),
  (* 12: the empty module *)
  X_Mod(NoAttrs, <<>>),
  (* 13: empty blocks *)
  X_Mod(NoAttrs,
        <<It("def", X_Type(NoAttrs, "priv", "Y", <<X_Vft(NoAttrs, <<>>)>>)), It("impl", X_Impl(NoAttrs, "Y", <<>>)),
          It("def", X_Type(NoAttrs, "pub", "N", <<>>)), It("def", X_Enum(NoAttrs, "priv", "M", TyU8, <<>>))>>),
  (* 14: a public field called vftable, contextual keywords as ordinary names *)
  X_Mod(NoAttrs,
        <<It("def", X_Type(NoAttrs, "priv", "P",
             <<X_Field(NoAttrs, "pub", "vftable", TyU8), X_Field(NoAttrs, "priv", "backend", X_Nm(N1("prologue"))),
               X_Field(NoAttrs, "priv", "unknown", X_Nm(N1("epilogue")))>>))>>),
  (* 15: documented enum over a generic base; extern value of array type; items interleaved *)
  X_Mod(X_Attrs(<<AGI(<<>>)>>),
        <<It("def", X_Enum(NoAttrs, "priv", "E", X_Nm(<<"Base", "<", "T", ">">>),
             <<X_VarEq(AG(<<X_AAs("doc", X_EStr(" d"))>>), "A", X_EInt(NumInt(16)))>>)),
          It("use", X_Use(<<N1("q")>>)), It("use", X_Use(<<N1("q")>>)),     \* the same import twice: both are kept
          It("eval", X_ExtVal(NoAttrs, "pub", "tbl", X_Arr(X_Arr(X_CPtr(X_Nm(N1("void"))), NumInt(2)), NumInt(3)))),
          It("back", X_BackPro("rust", "  use x;  "))>>),
  (* 16: function signatures: no receiver, pointer returns, attributes in two brackets *)
  X_Mod(NoAttrs,
        <<It("impl", X_Impl(NoAttrs, "F",
             <<X_Func(X_Attrs(<<X_AttrGroup(FALSE, <<X_AFn("address", <<X_EInt(NumInt(32))>>)>>),
                                X_AttrGroup(FALSE, <<X_AFn("calling_convention", <<X_EStr("cdecl")>>)>>)>>),
                      "priv", "h", <<X_SelfM, X_Arg("p", X_MPtr(X_MPtr(TyU8))), X_Arg("n", X_Unk(NumInt(2)))>>, X_CPtr(X_Nm(N1("void"))))>>))>>)
>>

Alpha == IF AlphaSet = "small"
         THEN <<Pu("#"), Pu("["), Pu("]"), Pu("("), Pu("{"), Pu("}"), Pu(","), Pu(";"), Pu(":"), Pu("="), Pu("<"), Pu(">"),
                Pu("*"), Pu("_"), Pu("!"), Kw("pub"), Kw("type"), Kw("fn"), Kw("extern"), Kw("mut"), Id("x"), Id("vftable"),
                In(NumInt(1)), In(NumInt(0 - 1)), In(Num("i64max", 1)), St("s"), St("")>>
         ELSE <<Pu("#"), Pu("!"), Pu("["), Pu("]"), Pu("("), Pu(")"), Pu("{"), Pu("}"), Pu(","), Pu(";"), Pu(":"), Pu(":j"),
                Pu("="), Pu("->"), Pu("<"), Pu(">"), Pu("*"), Pu("&"), Pu("_"),
                Kw("pub"), Kw("type"), Kw("enum"), Kw("extern"), Kw("impl"), Kw("use"), Kw("fn"), Kw("const"), Kw("mut"),
                Kw("self"), Kw("super"), Kw("true"),
                Id("x"), Id("r#fn"), Id("vftable"), Id("unknown"), Id("backend"), Id("prologue"), Id("epilogue"),
                In(NumInt(1)), In(NumInt(0 - 1)), In(Num("i64max", 1)), In(Num("u64max", 1)), St("s"), St("")>>

Mutations(ts) ==
  {[op |-> "none", i |-> 0, a |-> 0]}
  \cup {[op |-> "del", i |-> i, a |-> 0] : i \in DOMAIN ts}
  \cup {[op |-> "swap", i |-> i, a |-> 0] : i \in 1..(Len(ts) - 1)}
  \cup {[op |-> "rep", i |-> i, a |-> a] : i \in DOMAIN ts, a \in DOMAIN Alpha}
  \cup {[op |-> "ins", i |-> i, a |-> a] : i \in 1..(Len(ts) + 1), a \in DOMAIN Alpha}

Apply(ts, mu) ==
  CASE mu.op = "none" -> ts
    [] mu.op = "del"  -> SubSeq(ts, 1, mu.i - 1) \o SubSeq(ts, mu.i + 1, Len(ts))
    [] mu.op = "swap" -> [ts EXCEPT ![mu.i] = ts[mu.i + 1], ![mu.i + 1] = ts[mu.i]]
    [] mu.op = "rep"  -> [ts EXCEPT ![mu.i] = Alpha[mu.a]]
    [] OTHER          -> SubSeq(ts, 1, mu.i - 1) \o <<Alpha[mu.a]>> \o SubSeq(ts, mu.i, Len(ts))

BaseIdx == IF BaseSet = {} THEN DOMAIN Bases ELSE BaseSet

Init == \E b \in BaseIdx : \E mu \in Mutations(Bases[b].t) : st = [b |-> b, mu |-> mu]
Next == UNCHANGED vars
Spec == Init /\ [][Next]_vars

Toks == Apply(Bases[st.b].t, st.mu)
Verdict == ParseToks(Toks)

(* printing and parsing are inverse on every base                          *)
RoundTrip == st.mu.op = "none" => Verdict = [ok |-> TRUE, at |-> 0, m |-> Bases[st.b].v]

(* the specification is total: every token sequence gets a verdict, and a  *)
(* rejection names a position inside the text, its end, or the lexer       *)
Decides == LET v == Verdict IN v.ok \/ (v.at \in 0..(Len(Toks) + 1))

Replay ==
  LET v == Verdict
      ts == Toks
  IN PrintT(<<"REPLAY", ToJson([group |-> "parse", b |-> st.b, op |-> st.mu.op, i |-> st.mu.i, a |-> st.mu.a,
                                 toks |-> EncAll(ts), ok |-> v.ok, at |-> v.at, same |-> (ts = Bases[st.b].t),
                                 gmod |-> IF v.ok THEN v.m ELSE <<>>])>>)
=============================================================================
