SPECIFICATION Spec
CONSTANTS
  MaxLen = 7
  GenAlpha = "small"
INVARIANTS AllViable Replay
CHECK_DEADLOCK FALSE
