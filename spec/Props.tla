------------------------------- MODULE Props -------------------------------
(***************************************************************************)
(* The properties, transcribed from /verif/properties.jsonl as predicates  *)
(* over (input, outcome, emitted crate).  Nothing here looks at how        *)
(* Resolve.tla computes things: the oracles below are written from the     *)
(* property statements (declared addresses, the precedence list of C11,    *)
(* the compiler's layout rules of RustLayout.tla).                         *)
(***************************************************************************)
EXTENDS RustLayout

(* ----------------------- declarations of an input ---------------------- *)
TypeDefsOf(m) == {i \in DOMAIN m.defs : m.defs[i].k = "type"}

(* every path that the input declares, generated vftable structs included  *)
DeclPaths(inp) ==
  {<<n>> : n \in BuiltinNames}
  \cup UNION {{Join(inp.mods[mi].path, inp.mods[mi].defs[i].name) : i \in DOMAIN inp.mods[mi].defs}
              : mi \in DOMAIN inp.mods}
  \cup UNION {{Join(inp.mods[mi].path, inp.mods[mi].exts[i].name) : i \in DOMAIN inp.mods[mi].exts}
              : mi \in DOMAIN inp.mods}
  \cup UNION {{Join(inp.mods[mi].path, inp.mods[mi].defs[i].name \o "Vftable")
               : i \in {j \in TypeDefsOf(inp.mods[mi]) : inp.mods[mi].defs[j].vft.has}}
              : mi \in DOMAIN inp.mods}

ExtMap(inp) ==
  LET ps == UNION {{<<mi, i>> : i \in DOMAIN inp.mods[mi].exts} : mi \in DOMAIN inp.mods}
      pathOf(x) == Join(inp.mods[x[1]].path, inp.mods[x[1]].exts[x[2]].name)
  IN [p \in {pathOf(x) : x \in ps} |->
        LET x == CHOOSE y \in ps : pathOf(y) = p
        IN [size |-> inp.mods[x[1]].exts[x[2]].size, align |-> inp.mods[x[1]].exts[x[2]].align]]

(* where a definition lives: <<mi, di>> or <<0, 0>>                        *)
DefAt(inp, p) ==
  LET hits == {x \in UNION {{<<mi, i>> : i \in DOMAIN inp.mods[mi].defs} : mi \in DOMAIN inp.mods} :
                 Join(inp.mods[x[1]].path, inp.mods[x[1]].defs[x[2]].name) = p}
  IN IF hits = {} THEN <<0, 0>> ELSE CHOOSE x \in hits : TRUE

(* ------------------------- C11: the binding oracle --------------------- *)
(* type imported by name (last import wins) > built-in > own module >      *)
(* modules imported with `use path`, earlier imports first                 *)
Bind(inp, m, name) ==
  LET K == DeclPaths(inp)
      scope == <<m.path>> \o m.uses
      tyImp == {i \in DOMAIN m.uses : m.uses[i] \in K /\ m.uses[i] # <<>> /\ Last(m.uses[i]) = name}
      (* the module itself (scope[1]) is always searched as a module; an import is a module import *)
      (* when it does not name a type                                                               *)
      modIdx == {i \in DOMAIN scope : (i = 1 \/ scope[i] \notin K) /\ Join(scope[i], name) \in K}
  IN IF tyImp # {} THEN m.uses[CHOOSE i \in tyImp : \A j \in tyImp : j <= i]
     ELSE IF name \in BuiltinNames THEN <<name>>
     ELSE IF modIdx # {} THEN Join(scope[CHOOSE i \in modIdx : \A j \in modIdx : i <= j], name)
     ELSE <<>>

RECURSIVE DTy(_, _, _)
DTy(inp, m, ty) ==
  CASE ty.k = "nm" -> LET b == Bind(inp, m, ty.n) IN IF b = <<>> THEN TNone ELSE RRaw(b)
    [] ty.k = "unk" -> RArr(RRaw(<<"u8">>), ty.len)
    [] ty.k = "none" -> TNone
    [] OTHER -> LET inner == DTy(inp, m, ty.t)
                IN IF inner = TNone THEN TNone
                   ELSE IF ty.k = "arr" THEN RArr(inner, ty.len) ELSE [k |-> ty.k, t |-> inner]

(* -------------------- C06: who owns the vftable pointer ---------------- *)
RECURSIVE HasVftD(_, _, _)
HasVftD(inp, p, fuel) ==
  LET x == DefAt(inp, p)
  IN IF fuel = 0 \/ x = <<0, 0>> THEN FALSE
     ELSE LET m == inp.mods[x[1]]
              d == m.defs[x[2]]
              bi == IF d.k = "type" THEN FirstIdx(d.fields, LAMBDA f : f.base) ELSE 0
              bt == IF bi = 0 THEN TNone ELSE DTy(inp, m, d.fields[bi].ty)
          IN d.k = "type" /\ (d.vft.has \/ (bt # TNone /\ bt.k = "raw" /\ HasVftD(inp, bt.p, fuel - 1)))

FirstBaseHasVft(inp, m, d) ==
  LET bi == FirstIdx(d.fields, LAMBDA f : f.base)
      bt == IF bi = 0 THEN TNone ELSE DTy(inp, m, d.fields[bi].ty)
  IN bt # TNone /\ bt.k = "raw" /\ HasVftD(inp, bt.p, 8)

OwnsVptr(inp, m, d) == d.vft.has /\ ~FirstBaseHasVft(inp, m, d)

(* ------------------ C01 / C03: declared placement ---------------------- *)
(* one record per declared field: the cursor before it, where it starts,   *)
(* and the compiler's size/alignment of its type                           *)
RECURSIVE StartsFrom(_, _, _, _, _, _)
StartsFrom(crate, inp, m, fs, cur, acc) ==
  IF fs = <<>> THEN acc
  ELSE LET f == Head(fs)
           dt == DTy(inp, m, f.ty)
           t == IF dt = TNone THEN [size |-> None, align |-> None] ELSE RustTy(crate, dt, 8)
           st == IF IsSome(f.addr) THEN f.addr ELSE cur
           s == IF t.size = None THEN 0 ELSE t.size
       IN StartsFrom(crate, inp, m, Tail(fs), st + s,
                     Append(acc, [cur |-> cur, start |-> st, size |-> t.size, align |-> t.align,
                                  zla |-> f.ty.k \in {"arr", "unk"} /\ t.size = 0]))

(* the vftable block is a statement like any other: the pointer it stands for occupies   *)
(* one pointer-sized slot at the block's place in the description (d.vft.pos fields come  *)
(* before it; 0 for every description the code accepts today)                            *)
Starts(crate, inp, m, d) ==
  LET vp == IF OwnsVptr(inp, m, d) THEN crate.ptr ELSE 0
      k == IF d.vft.has THEN Min(d.vft.pos, Len(d.fields)) ELSE 0
  IN IF k = 0 THEN StartsFrom(crate, inp, m, d.fields, vp, <<>>)
     ELSE LET pre == StartsFrom(crate, inp, m, SubSeq(d.fields, 1, k), 0, <<>>)
              e == pre[k].start + (IF pre[k].size = None THEN 0 ELSE pre[k].size)
          IN StartsFrom(crate, inp, m, SubSeq(d.fields, k + 1, Len(d.fields)), e + vp, pre)

(* C01 for one type definition, against a crate (emitted by the model, or  *)
(* observed): every named field sits at its declared offset                *)
P_C01(crate, inp, mi, di) ==
  LET m == inp.mods[mi]
      d == m.defs[di]
      S == Starts(crate, inp, m, d)
  IN \A i \in DOMAIN d.fields :
       (d.fields[i].name # "_" /\ ~S[i].zla) =>
          FieldOffset(crate, Join(m.path, d.name), d.fields[i].name) = S[i].start

DeclOffsets(crate, inp, mi, di) ==
  LET m == inp.mods[mi]
      d == m.defs[di]
      S == Starts(crate, inp, m, d)
  IN [i \in DOMAIN d.fields |->
        [name |-> d.fields[i].name,
         off |-> IF d.fields[i].name = "_" \/ S[i].zla THEN None ELSE S[i].start]]

(* C03: the description can be realised                                    *)
Realisable(crate, inp, mi, di) ==
  LET m == inp.mods[mi]
      d == m.defs[di]
      n == Len(d.fields)
      vp == OwnsVptr(inp, m, d)
      S == Starts(crate, inp, m, d)
      c0 == IF vp THEN crate.ptr ELSE 0
      end == IF n = 0 THEN c0 ELSE S[n].start + S[n].size
      total == IF IsSome(d.size) THEN d.size ELSE end
      live == {i \in 1..n : ~S[i].zla}
      gaps == {i \in 1..n : S[i].start > S[i].cur}
      trailing == IsSome(d.size) /\ d.size > end
      nmembers == (IF vp THEN 1 ELSE 0) + Cardinality(live) + Cardinality(gaps)
                    + (IF trailing THEN 1 ELSE 0)
      soleAlign == IF vp THEN crate.ptr
                   ELSE IF live # {} THEN S[CHOOSE i \in live : TRUE].align ELSE 1
      eff == IF IsSome(d.align) THEN d.align
             ELSE IF nmembers = 1 THEN soleAlign ELSE crate.ptr
      aligns == {S[i].align : i \in live} \cup (IF vp THEN {crate.ptr} ELSE {})
  IN /\ \A i \in 1..n : IsSome(S[i].size)
     /\ ~(IsSome(d.size) /\ d.size < 0) /\ ~(IsSome(d.align) /\ d.align < 0)
     /\ \A i \in 1..n : ~(IsSome(d.fields[i].addr) /\ d.fields[i].addr < 0)
     /\ \A i \in 1..n : S[i].start >= S[i].cur          \* non-overlapping, non-decreasing
     /\ IsSome(d.size) => end <= d.size
     /\ ~(d.packed /\ IsSome(d.align))
     /\ d.packed \/
          /\ IsPow2(eff)
          /\ \A a \in aligns : eff >= a
          /\ \A i \in live : S[i].start % S[i].align = 0
          /\ total % eff = 0

(* ---------------- C02: resolved size/alignment = compiler's ------------ *)
P_C02_Item(crate, reg, p) ==
  LET l == RustItem(crate, p, 8)
  IN reg[p].res.size = l.size /\ reg[p].res.align = l.align

P_C02_Decl(crate, inp, mi, di) ==
  LET m == inp.mods[mi]
      d == m.defs[di]
      l == RustItem(crate, Join(m.path, d.name), 8)
  IN d.k = "type" =>
       /\ IsSome(d.size) => l.size = d.size
       /\ IsSome(d.align) => l.align = d.align
       /\ d.packed => l.align = 1

(* ------------------------- C04: vftable slots -------------------------- *)
(* slot of each declared function: its #[index], else predecessor + 1     *)
RECURSIVE DeclSlotsFrom(_, _, _)
DeclSlotsFrom(fs, prev, acc) ==
  IF fs = <<>> THEN acc
  ELSE LET i == IF IsSome(Head(fs).index) THEN Head(fs).index ELSE prev + 1
       IN DeclSlotsFrom(Tail(fs), i, Append(acc, i))
DeclSlots(vft) == DeclSlotsFrom(vft.funcs, 0 - 1, <<>>)

(* a declared index below its natural position, or a declared size below  *)
(* the last slot, contradicts the positions                                *)
ContradictoryVft(vft) ==
  LET sl == DeclSlots(vft)
      n == Len(sl)
  IN \/ \E k \in 1..n : sl[k] < 0
     \/ \E k \in 2..n : sl[k] <= sl[k - 1]
     \/ (IsSome(vft.size) /\ vft.size < 0)
     \/ (IsSome(vft.size) /\ n > 0 /\ vft.size <= sl[n])

TableLen(vft) ==
  LET sl == DeclSlots(vft)
      n == Len(sl)
      last == IF n = 0 THEN 0 ELSE sl[n] + 1
  IN IF IsSome(vft.size) THEN Max(last, vft.size) ELSE last

(* C16 *)
DeclCC(f) == IF f.cc # "" THEN f.cc
             ELSE IF \E i \in DOMAIN f.args : f.args[i].k \in {"cself", "mself"} THEN "thiscall"
             ELSE "system"

(* the table the property prescribes: per slot the declared function or a *)
(* placeholder                                                             *)
ExpectedTable(vft) ==
  LET sl == DeclSlots(vft)
  IN [i \in 1..TableLen(vft) |->
        IF \E k \in DOMAIN sl : sl[k] = i - 1
        THEN LET k == CHOOSE j \in DOMAIN sl : sl[j] = i - 1
             IN [pad |-> FALSE, name |-> vft.funcs[k].name, cc |-> DeclCC(vft.funcs[k]),
                 nargs |-> Len(vft.funcs[k].args), hasret |-> vft.funcs[k].ret # TNone,
                 vis |-> vft.funcs[k].vis]
        ELSE [pad |-> TRUE, name |-> "", cc |-> "thiscall", nargs |-> 1, hasret |-> FALSE, vis |-> "priv"]]

(* P_C04 on an emitted <T>Vftable struct `it` (abstract item) and the     *)
(* compiler's layout `l` of it                                             *)
P_C04_Table(vft, it, l, ptr) ==
  LET ex == ExpectedTable(vft)
  IN /\ Len(it.fields) = Len(ex)
     /\ \A i \in DOMAIN ex :
          /\ it.fields[i].ty.k = "fn"
          /\ ex[i].pad \/ it.fields[i].name = ex[i].name
          /\ ex[i].pad => (it.fields[i].vis = "priv" /\ \A k \in DOMAIN vft.funcs : it.fields[i].name # vft.funcs[k].name)
          /\ it.fields[i].ty.cc = ex[i].cc
          /\ Len(it.fields[i].ty.args) = ex[i].nargs
          /\ (it.fields[i].ty.ret # TNone) = ex[i].hasret
          /\ l.offs[i] = (i - 1) * ptr
     /\ l.size = Len(ex) * ptr

(* --------------------- C06 / C07: inheritance oracles ------------------ *)
(* a declared virtual function, as the compatibility rule of C06 sees it   *)
SlotSig(inp, m, f) ==
  [name |-> f.name,
   recv |-> IF \E i \in DOMAIN f.args : f.args[i].k = "cself" THEN "const"
            ELSE IF \E i \in DOMAIN f.args : f.args[i].k = "mself" THEN "mut" ELSE "none",
   ptypes |-> [i \in DOMAIN SelectSeq(f.args, LAMBDA a : a.k = "named") |->
                 DTy(inp, m, SelectSeq(f.args, LAMBDA a : a.k = "named")[i].ty)],
   ret |-> DTy(inp, m, f.ret), cc |-> DeclCC(f), vis |-> f.vis, pad |-> FALSE]

PadSig == [name |-> "", recv |-> "mut", ptypes |-> <<>>, ret |-> TNone, cc |-> "thiscall", vis |-> "priv", pad |-> TRUE]

OwnTableSigs(inp, m, vft) ==
  LET sl == DeclSlots(vft)
  IN [i \in 1..TableLen(vft) |->
        IF \E k \in DOMAIN sl : sl[k] = i - 1
        THEN SlotSig(inp, m, vft.funcs[CHOOSE j \in DOMAIN sl : sl[j] = i - 1])
        ELSE PadSig]

FirstBaseType(inp, m, d) ==
  LET bi == FirstIdx(d.fields, LAMBDA f : f.base)
  IN IF bi = 0 THEN TNone ELSE DTy(inp, m, d.fields[bi].ty)

(* the table a type effectively has: its own block, else its first base's *)
RECURSIVE EffTable(_, _, _)
EffTable(inp, p, fuel) ==
  LET x == DefAt(inp, p)
  IN IF fuel = 0 \/ x = <<0, 0>> THEN <<>>
     ELSE LET m == inp.mods[x[1]]
              d == m.defs[x[2]]
              bt == IF d.k = "type" THEN FirstBaseType(inp, m, d) ELSE TNone
          IN IF d.k # "type" THEN <<>>
             ELSE IF d.vft.has THEN OwnTableSigs(inp, m, d.vft)
             ELSE IF bt # TNone /\ bt.k = "raw" THEN EffTable(inp, bt.p, fuel - 1)
             ELSE <<>>

SameSlot(a, b) ==
  /\ a.pad = b.pad
  /\ a.pad \/ (a.name = b.name /\ a.recv = b.recv /\ a.ptypes = b.ptypes /\ a.ret = b.ret /\ a.cc = b.cc)

(* C06: the derived block repeats every base slot in the same position     *)
VftCompatible(inp, m, d) ==
  LET bt == FirstBaseType(inp, m, d)
      base == IF bt # TNone /\ bt.k = "raw" THEN EffTable(inp, bt.p, 8) ELSE <<>>
      own == OwnTableSigs(inp, m, d.vft)
  IN (d.vft.has /\ base # <<>>) =>
        /\ Len(own) >= Len(base)
        /\ \A i \in DOMAIN base : SameSlot(base[i], own[i])

(* C07: the functions a type exposes (name, forwarded-to field, original   *)
(* name, visibility); own impl functions have field = ""                   *)
RECURSIVE EffFuncs(_, _, _)
RECURSIVE ExposeFrom(_, _, _, _)
ExposeFrom(acc, bname, fs, k) ==    \* acc = [used, out]; fs = seq of [name, vis]
  IF k > Len(fs) THEN acc
  (* a function the user hides (its own name starts with `_`) is not part of the type's interface *)
  ELSE IF fs[k].vis # "pub" \/ (StartsUnderscore(fs[k].name) /\ ("field" \notin DOMAIN fs[k] \/ fs[k].field = ""))
       THEN ExposeFrom(acc, bname, fs, k + 1)
  ELSE LET nm == IF fs[k].name \in acc.used THEN bname \o "_" \o fs[k].name ELSE fs[k].name
       IN ExposeFrom([used |-> acc.used \cup {nm},
                      out |-> Append(acc.out, [name |-> nm, field |-> bname, orig |-> fs[k].name, vis |-> "pub"])],
                     bname, fs, k + 1)

RECURSIVE ExposeBases(_, _, _, _, _, _)
ExposeBases(inp, m, bases, i, acc, fuel) ==
  IF bases = <<>> THEN acc
  ELSE LET b == Head(bases)
           bt == DTy(inp, m, b.ty)
           ok == bt # TNone /\ bt.k = "raw" /\ DefAt(inp, bt.p) # <<0, 0>>
           a1 == IF ok THEN ExposeFrom(acc, b.name, EffFuncs(inp, bt.p, fuel - 1), 1) ELSE acc
           tab == IF ok THEN EffTable(inp, bt.p, 8) ELSE <<>>
           a2 == IF i > 0 THEN ExposeFrom(a1, b.name, [j \in DOMAIN tab |-> [name |-> tab[j].name, vis |-> tab[j].vis]], 1)
                 ELSE a1
       IN ExposeBases(inp, m, Tail(bases), i + 1, a2, fuel)

EffFuncs(inp, p, fuel) ==
  LET x == DefAt(inp, p)
  IN IF fuel = 0 \/ x = <<0, 0>> THEN <<>>
     ELSE LET m == inp.mods[x[1]]
              d == m.defs[x[2]]
              tab == EffTable(inp, p, 8)
              used0 == {tab[j].name : j \in {k \in DOMAIN tab : ~tab[k].pad}}
              inj == IF d.k # "type" THEN [used |-> {}, out |-> <<>>]
                     ELSE ExposeBases(inp, m, SelectSeq(d.fields, LAMBDA f : f.base /\ f.name # "_"), 0,
                                      [used |-> used0, out |-> <<>>], fuel)
              own == ImplFuncs(m, d.name)
          IN inj.out \o [j \in DOMAIN own |-> [name |-> own[j].name, field |-> "", orig |-> own[j].name, vis |-> own[j].vis]]

(* every base sub-object, depth first: [path of field names, type path]   *)
RECURSIVE BaseObjects(_, _, _, _)
BaseObjects(inp, p, prefix, fuel) ==
  LET x == DefAt(inp, p)
  IN IF fuel = 0 \/ x = <<0, 0>> THEN <<>>
     ELSE LET m == inp.mods[x[1]]
              d == m.defs[x[2]]
              bases == IF d.k = "type" THEN SelectSeq(d.fields, LAMBDA f : f.base /\ f.name # "_") ELSE <<>>
              one(b) == LET bt == DTy(inp, m, b.ty)
                        IN IF bt = TNone \/ bt.k # "raw" THEN <<>>
                           ELSE <<[path |-> Append(prefix, b.name), ty |-> bt.p]>>
                                \o BaseObjects(inp, bt.p, Append(prefix, b.name), fuel - 1)
          IN Flatten([i \in DOMAIN bases |-> one(bases[i])])

(* the conversions C07 prescribes: one per base type that occurs once     *)
ExpectedAsRefs(inp, p) ==
  LET h == BaseObjects(inp, p, <<>>, 8)
  IN {[ty |-> h[i].ty, path |-> h[i].path] : i \in {j \in DOMAIN h : \A k \in DOMAIN h : k # j => h[k].ty # h[j].ty}}

(* ------------------------- C10: the resolvability oracle ---------------- *)
AllDefsOf(inp) == UNION {{<<mi, di>> : di \in DOMAIN inp.mods[mi].defs} : mi \in DOMAIN inp.mods}
PathOfDefIn(inp, x) == Join(inp.mods[x[1]].path, inp.mods[x[1]].defs[x[2]].name)

RECURSIVE TyNames(_)
TyNames(ty) == CASE ty.k = "nm" -> {ty.n}
                 [] ty.k \in {"unk", "none"} -> {}
                 [] OTHER -> TyNames(ty.t)

RECURSIVE ByValueNames(_)
ByValueNames(ty) == CASE ty.k = "nm" -> {ty.n}
                      [] ty.k = "arr" -> ByValueNames(ty.t)
                      [] OTHER -> {}

(* names a definition mentions in fields (or as enum base)                 *)
FieldTypes(d) == IF d.k = "enum" THEN {d.base} ELSE {d.fields[i].ty : i \in DOMAIN d.fields}
FnTypes(m, d) ==
  LET fs == ImplFuncs(m, d.name) \o (IF d.k = "type" THEN d.vft.funcs ELSE <<>>)
  IN UNION {{fs[i].args[j].ty : j \in {k \in DOMAIN fs[i].args : fs[i].args[k].k = "named"}} \cup
            (IF fs[i].ret = TNone THEN {} ELSE {fs[i].ret}) : i \in DOMAIN fs}

BoundIn(inp, m, ty) == \A n \in TyNames(ty) : Bind(inp, m, n) # <<>>

(* least fix-point: a definition is resolvable when the names in its       *)
(* fields exist and everything it embeds by value is resolvable            *)
ResolvableStep(inp, S) ==
  S \cup {x \in AllDefsOf(inp) :
            LET m == inp.mods[x[1]]
                d == m.defs[x[2]]
            IN /\ \A ty \in FieldTypes(d) : BoundIn(inp, m, ty)
               /\ \A ty \in FieldTypes(d) : \A n \in ByValueNames(ty) :
                     LET b == Bind(inp, m, n)
                     IN DefAt(inp, b) = <<0, 0>> \/ DefAt(inp, b) \in S}
RECURSIVE Lfp(_, _, _)
Lfp(inp, S, fuel) == IF fuel = 0 \/ ResolvableStep(inp, S) = S THEN S ELSE Lfp(inp, ResolvableStep(inp, S), fuel - 1)
ResolvableDefsOf(inp) == Lfp(inp, {}, Cardinality(AllDefsOf(inp)) + 2)
UnresolvablePathsOf(inp) == {PathOfDefIn(inp, x) : x \in AllDefsOf(inp) \ ResolvableDefsOf(inp)}

FnNamesDefinedIn(inp) ==
  \A x \in AllDefsOf(inp) : \A ty \in FnTypes(inp.mods[x[1]], inp.mods[x[1]].defs[x[2]]) :
     BoundIn(inp, inp.mods[x[1]], ty)
EvalNamesDefinedIn(inp) ==
  \A mi \in DOMAIN inp.mods : \A i \in DOMAIN inp.mods[mi].evals : BoundIn(inp, inp.mods[mi], inp.mods[mi].evals[i].ty)

ResolvableIn(inp) == AllDefsOf(inp) = ResolvableDefsOf(inp) /\ FnNamesDefinedIn(inp) /\ EvalNamesDefinedIn(inp)

(* --------------------------- known findings ---------------------------- *)
(* the generated <T>Vftable names exist only once T's attempt has reached  *)
(* the vftable step, so an input that mentions one is schedule dependent   *)
GeneratedNamesOf(inp) ==
  UNION {{inp.mods[mi].defs[i].name \o "Vftable" :
            i \in {j \in TypeDefsOf(inp.mods[mi]) : inp.mods[mi].defs[j].vft.has}}
         : mi \in DOMAIN inp.mods}
MentionsGeneratedIn(inp) ==
  \E x \in AllDefsOf(inp) :
     LET m == inp.mods[x[1]]
         d == m.defs[x[2]]
     IN \E ty \in FieldTypes(d) \cup FnTypes(m, d) : TyNames(ty) \cap GeneratedNamesOf(inp) # {}


(* --------- C13 / C14: names that would denote the same Rust item -------- *)
(* Plain, HasDupNames, NamesOf: Base.tla *)
ArgNames(f) == NamesOf(SelectSeq(f.args, LAMBDA a : a.k = "named"))

(* inside one type: its fields (with the pointer field the type owns), the slots of its table, *)
(* its methods (generated accessors, wrappers of the virtual functions, impl functions), and   *)
(* the parameters of each function                                                             *)
TypeNameClash(inp, m, d) ==
  LET fnames == (IF OwnsVptr(inp, m, d) THEN <<"vftable">> ELSE <<>>)
                \o SelectSeq(NamesOf(d.fields), LAMBDA n : n # "_")
      vnames == NamesOf(d.vft.funcs)
      mine == SelectSeq(m.impls, LAMBDA b : b.name = d.name)
      ifuncs == Flatten([k \in DOMAIN mine |-> mine[k].funcs])    \* the functions of every impl block of the type
      accessors == (IF HasVftD(inp, Join(m.path, d.name), 8) THEN <<"vftable">> ELSE <<>>)
                   \o (IF IsSome(d.singleton) THEN <<"get">> ELSE <<>>)
  IN \/ HasDupNames(fnames)
     \/ HasDupNames(accessors \o vnames \o NamesOf(ifuncs))
     \/ \E i \in DOMAIN d.vft.funcs : HasDupNames(ArgNames(d.vft.funcs[i]))
     \/ \E i \in DOMAIN ifuncs : HasDupNames(ArgNames(ifuncs[i]))

(* two declarations of one module that would produce the same item (last clause of C14) *)
ModuleItemClash(m) == HasDupNames(NamesOf(m.defs) \o NamesOf(m.exts)) \/ HasDupNames(NamesOf(m.evals))
SameItemClash(inp) == \E mi \in DOMAIN inp.mods : ModuleItemClash(inp.mods[mi])

NameClash(inp) ==
  \/ SameItemClash(inp)
  \/ \E mi \in DOMAIN inp.mods :
        LET m == inp.mods[mi]
        IN \E di \in DOMAIN m.defs :
             IF m.defs[di].k = "type" THEN TypeNameClash(inp, m, m.defs[di])
             ELSE HasDupNames(NamesOf(m.defs[di].vars))

(* ------------- C13: derives that cannot be satisfied, enums without cases ------------- *)
RECURSIVE ByValuePath(_)
ByValuePath(rt) == IF rt = TNone THEN <<>> ELSE IF rt.k = "raw" THEN rt.p ELSE IF rt.k = "arr" THEN ByValuePath(rt.t) ELSE <<>>
(* a copyable (cloneable) type embeds, by value or in an array, an emitted type that is not; extern *)
(* types are supplied by the user and built-ins have both                                          *)
DeriveUnsat(inp) ==
  \E mi \in DOMAIN inp.mods :
    LET m == inp.mods[mi]
    IN \E di \in TypeDefsOf(m) :
         LET d == m.defs[di]
         IN (d.copyable \/ d.cloneable) /\
            \E fi \in DOMAIN d.fields :
               LET p == ByValuePath(DTy(inp, m, d.fields[fi].ty))
                   x == DefAt(inp, p)
               IN /\ p # <<>> /\ p \notin {<<n>> : n \in BuiltinNames} /\ p \notin DOMAIN ExtMap(inp)
                  /\ IF x = <<0, 0>> THEN TRUE      \* a generated vftable struct: no derives
                     ELSE LET e == inp.mods[x[1]].defs[x[2]]
                          IN (d.copyable /\ ~e.copyable) \/ ~(e.cloneable \/ e.copyable)
EmptyEnum(inp) ==
  \E mi \in DOMAIN inp.mods : \E di \in DOMAIN inp.mods[mi].defs :
     inp.mods[mi].defs[di].k = "enum" /\ inp.mods[mi].defs[di].vars = <<>>

=============================================================================
