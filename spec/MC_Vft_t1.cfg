SPECIFICATION MCSpec
CONSTANTS
  SpuriousPass = FALSE
  AllSchedules = TRUE
  PermuteModules = FALSE
  MaxFuncs = 3
  Idxs <- TIdxs
  TSizes <- TSizesAll
  CCs = {"", "C", "cdecl", "stdcall", "fastcall", "thiscall", "vectorcall", "system", "bogus"}
  ImplCCs = {"", "C", "cdecl", "stdcall", "fastcall", "thiscall", "vectorcall", "system", "Cdecl"}
  Ptrs = {4, 8}
  NoRecv = {FALSE, TRUE}
  SweepCCs = {"C", "cdecl", "stdcall", "fastcall", "thiscall", "vectorcall", "system"}
INVARIANTS Replay
CHECK_DEADLOCK FALSE
VIEW View
