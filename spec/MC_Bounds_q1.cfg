SPECIFICATION Spec
CONSTANTS
  Positions <- AllPositions
  Values <- BVals
  Idents = {"a", "_", "r#type", "r#Foo", "Vftable", "u8", "Self", "vftable", "_f", "get"}
  Sequences <- QSeqs
INVARIANTS Replay
CHECK_DEADLOCK FALSE
