SPECIFICATION MCSpec
CONSTANTS
  SpuriousPass = FALSE
  AllSchedules = FALSE
  PermuteModules = FALSE
  NB0 = {0, 1, 2, 3, 4}
  Variants = {"none", "same", "ext", "extm0", "emptyblk", "trunc", "short", "swap", "rename", "recv", "ptype", "pcount", "ret", "cc", "argname", "vis", "doc"}
  WithB1 = {FALSE, TRUE}
  B1Vft = {FALSE, TRUE}
  Clash = {"no", "derived", "renamed", "renamed2"}
  DDs = {"none", "plain", "diamond", "twin"}
  DDVft = {"no", "yes", "flat"}
  B1Names = {"b1", "_b1"}
  SameName = FALSE
  XdNames = {"xd", "vftable"}
  Packs = {FALSE, TRUE}
  Ptrs = {4, 8}
  Lead = {FALSE, TRUE}
  EmptyBlocks = {FALSE, TRUE}
  Split = {FALSE}
INVARIANTS Replay
CHECK_DEADLOCK FALSE
VIEW View
