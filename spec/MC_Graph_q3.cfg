SPECIFICATION MCSpec
CONSTANTS
  SpuriousPass = FALSE
  AllSchedules = TRUE
  PermuteModules = FALSE
  N = 3
  Kinds = {"arr0"}
  VftTypes = {1}
  FnKinds = {"ret", "vparam", "param"}
  FnOwners = {3}
  Twins = {"none"}
  TwoModules = FALSE
  Ptrs = {4}
INVARIANTS Inv_Passes Replay
CHECK_DEADLOCK FALSE
