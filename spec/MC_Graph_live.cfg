SPECIFICATION MCSpec
CONSTANTS
  SpuriousPass = TRUE
  AllSchedules = TRUE
  PermuteModules = FALSE
  N = 3
  Kinds = {"val", "ptr", "vptr"}
  VftTypes = {1}
  FnKinds = {}
  FnOwners = {}
  Twins = {"none"}
  TwoModules = FALSE
  Ptrs = {8}
INVARIANTS Inv_Passes LoopAbsInv
PROPERTIES Termination RefinesLoopAbs
CHECK_DEADLOCK TRUE
