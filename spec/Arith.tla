------------------------------- MODULE Arith -------------------------------
(***************************************************************************)
(* The one piece of arithmetic that both sides of C01-C03 share: rounding  *)
(* up to an alignment.  RustLayout.tla places a repr(C) field at           *)
(* RoundUp(end of the previous field, alignment) and sizes a struct as     *)
(* RoundUp(end of the last field, alignment); Props.tla (Realisable) and   *)
(* Resolve.tla speak of remainders instead.  ArithProofs.tla proves with   *)
(* TLAPS, for integers of ANY size, that the two say the same.             *)
(***************************************************************************)
EXTENDS Integers

RoundUp(n, a) == ((n + a - 1) \div a) * a
=============================================================================
