SPECIFICATION Spec
CONSTANTS
  AlphaSet = "small"
  BaseSet = {}
INVARIANTS RoundTrip Decides Replay
CHECK_DEADLOCK FALSE
