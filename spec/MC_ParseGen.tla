---------------------------- MODULE MC_ParseGen ----------------------------
(***************************************************************************)
(* The language of Parse.tla explored from the empty text: a transition    *)
(* system whose states are the VIABLE PREFIXES of the language over a      *)
(* small token alphabet.                                                   *)
(*                                                                         *)
(*   Extend(t):  ts' = ts \o <<t>>   if the longer sequence is still a     *)
(*               prefix of some module (after closing its open groups the  *)
(*               specification either accepts it or gets stuck only at a   *)
(*               closing delimiter / the end that we supplied ourselves)   *)
(*                                                                         *)
(* Every state is printed closed (open groups closed innermost first) with *)
(* the verdict of the specification, and every extension that is NOT       *)
(* viable is printed with the token it is rejected at.  The harness        *)
(* compares each with parser::parse_str.  Together with MC_Parse (single-  *)
(* token mutations of long modules) this decides, for every token sequence *)
(* up to the bound, whether it is a module of the language.                *)
(***************************************************************************)
EXTENDS Parse, Json

CONSTANTS MaxLen,     \* longest prefix explored
          GenAlpha    \* "tiny" | "small"

VARIABLES ts
vars == <<ts>>

Alpha == IF GenAlpha = "tiny"
         THEN <<Pu("#"), Pu("["), Pu("]"), Pu("("), Pu(")"), Pu("{"), Pu("}"), Pu(","), Pu(";"), Pu(":"), Pu("="),
                Kw("pub"), Kw("type"), Kw("fn"), Id("x"), Id("vftable"), In(NumInt(1)), St("s")>>
         ELSE <<Pu("#"), Pu("!"), Pu("["), Pu("]"), Pu("("), Pu(")"), Pu("{"), Pu("}"), Pu(","), Pu(";"), Pu(":"), Pu("="),
                Pu("*"), Pu("&"), Pu("_"), Pu("->"), Pu("<"), Pu(">"),
                Kw("pub"), Kw("type"), Kw("enum"), Kw("extern"), Kw("impl"), Kw("use"), Kw("fn"), Kw("const"), Kw("mut"), Kw("self"),
                Id("x"), Id("vftable"), Id("unknown"), Id("backend"), Id("prologue"), In(NumInt(1)), In(NumInt(0 - 1)), St("s")>>

(* the closing delimiters that the open groups of s still need, innermost first; <<"!">> when s closes a group it did not open *)
RECURSIVE OpenStack(_, _, _)
OpenStack(s, i, stack) ==
  IF i > Len(s) THEN stack
  ELSE IF s[i].k = "pu" /\ s[i].v \in Opens THEN OpenStack(s, i + 1, <<CloseOf(s[i].v)>> \o stack)
  ELSE IF s[i].k = "pu" /\ s[i].v \in Closes THEN
         IF stack = <<>> \/ stack[1] # s[i].v THEN <<"!">> ELSE OpenStack(s, i + 1, Tail(stack))
  ELSE OpenStack(s, i + 1, stack)

Closers(s) == LET st == OpenStack(s, 1, <<>>) IN [i \in DOMAIN st |-> Pu(st[i])]
Balanced(s) == OpenStack(s, 1, <<>>) # <<"!">>
Closed(s) == s \o Closers(s)

(* a prefix of some module: closed, it is accepted, or the specification gets stuck only behind the prefix itself *)
Viable(s) ==
  /\ Balanced(s)
  /\ LET v == ParseToks(Closed(s)) IN v.ok \/ v.at > Len(s)

Init == ts = <<>>

Rec(s, kind) ==
  LET c == Closed(s)
      v == ParseToks(c)
  IN PrintT(<<"REPLAY", ToJson([group |-> "parsegen", kind |-> kind, b |-> 0, op |-> kind, i |-> Len(s), a |-> 0,
                                 toks |-> EncAll(c), ok |-> v.ok, at |-> v.at, same |-> FALSE,
                                 gmod |-> IF v.ok THEN v.m ELSE <<>>])>>)

(* a sequence that is not balanced can only be printed as it is: the lexer rejects it *)
RecRaw(s) ==
  PrintT(<<"REPLAY", ToJson([group |-> "parsegen", kind |-> "unbalanced", b |-> 0, op |-> "unbalanced", i |-> Len(s), a |-> 0,
                              toks |-> EncAll(s), ok |-> FALSE, at |-> 0, same |-> FALSE, gmod |-> <<>>])>>)

Extend ==
  /\ Len(ts) < MaxLen
  /\ \E k \in DOMAIN Alpha :
       LET s2 == Append(ts, Alpha[k])
       IN IF Viable(s2) THEN ts' = s2
          ELSE (* not a prefix of any module: the record of the rejection, no successor *)
               /\ (IF Balanced(s2) THEN Rec(s2, "dead") ELSE RecRaw(s2))
               /\ FALSE

Next == Extend \/ UNCHANGED vars
Spec == Init /\ [][Next]_vars

(* every state is a viable prefix (the invariant the machine is built to keep) *)
AllViable == Viable(ts)
Replay == Rec(ts, "prefix")
=============================================================================
