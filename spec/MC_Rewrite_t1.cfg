SPECIFICATION MCSpec
CONSTANTS
  SpuriousPass = FALSE
  AllSchedules = FALSE
  PermuteModules = FALSE
  FieldSets <- TFieldSets
  VftSets <- QVftSets
  EnumSets <- QEnumSets
  Ptrs = {4, 8}
  Pairs = FALSE
INVARIANTS Replay
CHECK_DEADLOCK FALSE
VIEW View
