SPECIFICATION MCSpec
CONSTANTS
  SpuriousPass = FALSE
  AllSchedules = FALSE
  PermuteModules = FALSE
  FieldSets <- TFieldSets
  VftSets <- T1VftSets
  EnumSets <- T1EnumSets
  Ptrs = {4, 8}
  Pairs = FALSE
INVARIANTS Replay
CHECK_DEADLOCK FALSE
VIEW View
