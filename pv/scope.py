"""C11 (names bind to the definition the scoping rules select) and C19 (a module's bindings do
not depend on unrelated definitions) on MC_Scope."""
import json, os, collections
from .common import *
from . import conform
from .layout import Pipeline, payload, proj_item
from .result import Result

CFG = {"quick": ["MC_Scope_q1.cfg", "MC_Scope_q2.cfg"], "thorough": ["MC_Scope_t1.cfg", "MC_Scope_q2.cfg"]}


def run_scope(pid, tier):
    res = Result(pid, tier)
    d = os.path.join(WORK, "run", f"scope-{tier}")
    pl = Pipeline(tier, module="MC_Scope", cfgs=CFG, name="scope",
                  replay_flags=["--emit-dir", os.path.join(d, "emit"), "--project"] + (["--via-fs"] if pid == "C19" else ["--sched"]))
    cov = pl.base_coverage()
    n_checked = n_model = n_acc = 0
    groups = collections.defaultdict(dict)
    for case, obs in pl.pairs():
        cid, oracle = case["id"], case["oracle"]
        if pid in case.get("pviol", []):
            n_model += 1
        dd = []
        if pid == "C19":
            pass
        elif obs["accepted"] != case["accepted"]:
            dd.append(f"verdict: code {obs['outcome']} vs mirror {'ok' if case['accepted'] else 'err:' + case['err']}")
        elif obs["accepted"]:
            dd += conform.reg_drift(case["mirror"]["reg"], obs.get("reg"))
            dd += conform.files_drift(case["mirror"]["out"], obs.get("files"))
        res.add_drift(dd, cid)
        if pid == "C19":
            gen = case["input"]["gen"]
            nmods = len(case["input"]["mods"])
            extra = json.dumps([m for m in case["input"]["mods"] if m["path"] != ["m"]], sort_keys=True)
            groups[json.dumps(gen, sort_keys=True)].setdefault(sha(extra), (case, obs))
            continue
        n_checked += 1
        bound = oracle["bound"]
        if obs["accepted"] != oracle["accept"]:
            res.violation(f"build {'succeeded' if obs['accepted'] else 'failed'} although the name "
                          f"{'binds to ' + '::'.join(bound) if bound else 'is not visible from the module'}"
                          + (" (an enum over it needs the built-in integer type)" if oracle["en"] else ""), payload(case, obs))
            continue
        if not obs["accepted"]:
            continue
        n_acc += 1
        want = {"k": "raw", "p": bound}
        r = proj_item(obs, ["m", "R"])
        problems = []
        if r is None:
            res.violation("accepted but m::R not emitted", payload(case, obs))
            continue
        f = next((x for x in r.get("fields", []) if x["name"] == "f"), None)
        if f is None or f["ty"] != want:
            problems.append(f"field f refers to {f and f['ty']}, the scoping rules select {'::'.join(bound)}")
        ent = next((e for e in obs.get("reg", []) if e["path"] == ["m", "R"]), None)
        if ent is None or ent["res"].get("size") != oracle["size"]:
            problems.append(f"R was laid out with size {ent and ent['res'].get('size')}, the selected definition has size {oracle['size']}")
        g = next((m for m in r.get("methods", []) if m["name"] == "g"), None)
        if g is None:
            problems.append("wrapper g missing")
        else:
            if g["args"][1]["ty"] != {"k": "cptr", "t": want} or g["ret"] != {"k": "mptr", "t": want}:
                problems.append(f"g's parameter/return refer to {g['args'][1]['ty']} / {g['ret']}, expected {'::'.join(bound)}")
        if oracle["shadowBound"]:
            sn = proj_item(obs, ["a", "n"])
            q = next((x for x in (sn or {}).get("fields", []) if x["name"] == "q"), None)
            if q is None or q["ty"] != {"k": "raw", "p": oracle["shadowBound"]}:
                problems.append(f"a::n.q refers to {q and q['ty']}; in module a the name denotes {'::'.join(oracle['shadowBound'])}")
        if oracle["en"]:
            ent = next((e for e in obs.get("reg", []) if e["path"] == ["m", "En"]), None)
            if ent is None or ent["res"].get("size") != 2:
                problems.append(f"enum En over the built-in u16 resolved with size {ent and ent['res'].get('size')}")
        mfile = next((f.get("proj") for f in obs.get("files", []) if f["rel"] == "m.rs"), None) or {}
        gx = next((e for e in mfile.get("evals", []) if e["name"] == "gx"), None)
        if gx is None:
            problems.append("accessor get_gx missing")
        elif gx["ret"].get("t") != {"k": "cptr", "t": want}:
            problems.append(f"get_gx() returns {gx['ret']}, the scoping rules select {'::'.join(bound)}")
        if problems:
            res.violation("; ".join(problems[:3]), payload(case, obs))
        if cid % 701 == 0:
            res.sample({"uses": next(m["uses"] for m in case["input"]["mods"] if m["path"] == ["m"]), "defined_in": case["input"]["gen"]["defs"],
                        "name": case["input"]["gen"]["name"], "binds_to": bound})
    if pid == "C19":
        for key, variants in groups.items():
            def is_base(c):
                mods = {tuple(m["path"]): [d["name"] for d in m["defs"]] for m in c["input"]["mods"]}
                return len(mods) == 4 and "Zed" not in mods[("b",)] and not ({"Other", "Own", "W", "n"} & set(mods[("a",)]))
            base = next(((c, o) for c, o in variants.values() if is_base(c)), None)
            if base is None or not base[1]["accepted"]:
                continue
            for c, o in variants.values():
                if c is base[0] or not o["accepted"]:
                    continue
                bmods = {tuple(m["path"]): [d["name"] for d in m["defs"]] for m in c["input"]["mods"]}
                m_uses = next(m["uses"] for m in c["input"]["mods"] if m["path"] == ["m"])
                m_related = "n" in bmods.get(("a",), []) and ["a", "n"] in m_uses      # m imports the path a::n itself
                watch = ([] if m_related else ["m.rs"]) + (["a/n.rs"] if "Zed" not in bmods.get(("b",), []) else [])
                for rel in watch:
                    n_checked += 1
                    bfile = next((f for f in base[1].get("files", []) if f["rel"] == rel), None)
                    f = next((x for x in o.get("files", []) if x["rel"] == rel), None)
                    if bfile is None or f is None or f["hash"] != bfile["hash"]:
                        break
                else:
                    continue
                if True:
                    res.violation(f"{rel} changes when definitions that the module neither imports nor mentions are added / changed",
                                  payload(c, o, {"base_case": base[0]["id"], "base_modules": [m["path"] for m in base[0]["input"]["mods"]],
                                                 "perturbed_modules": [(m["path"], [d["name"] for d in m["defs"]]) for m in c["input"]["mods"]],
                                                 "hash_base": bfile and bfile["hash"], "hash_perturbed": f and f["hash"]}))
                if n_checked % 997 == 0:
                    res.sample({"base": [(m["path"], [d["name"] for d in m["defs"]]) for m in base[0]["input"]["mods"]],
                                "perturbed": [(m["path"], [d["name"] for d in m["defs"]]) for m in c["input"]["mods"]],
                                "m.rs": f and f["hash"]})
    cov.update({"evaluations": n_checked, "distinct_nontrivial": n_checked, "accepted_by_code": n_acc,
                "rule": "every module set of MC_Scope (the name defined with different sizes in every subset of four places x every "
                        "ordered list of up to N type/module imports x built-in-like name x perturbations) replayed into pyxis; "
                        "C11 reads the emitted paths and the resolved size, C19 compares the bytes of m.rs with the unperturbed build",
                "model_level_violations": n_model})
    res.coverage = cov
    res.assumptions = ["the candidates have pairwise different sizes, so a wrong binding cannot hide in the layout"]
    return res.finish()
