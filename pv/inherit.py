"""C06 (derived vftable extends the first base's and shares its pointer) and C07 (base members
re-exposed on derived types), on MC_Inherit; also the derived-table part of C16."""
import json, os
from .common import *
from . import conform
from .layout import Pipeline, payload, proj_item
from .result import Result

CFG = {"quick": ["MC_Inherit_q1.cfg", "MC_Inherit_q2.cfg"], "thorough": ["MC_Inherit_q1.cfg", "MC_Inherit_q2.cfg", "MC_Inherit_t1.cfg"]}


def field_chain_type(obs, start_path, fpath):
    """follow a chain of field names from struct `start_path`; returns the type (abstract) of the last field"""
    cur = start_path
    ty = None
    for name in fpath:
        it = proj_item(obs, cur)
        if it is None or it.get("k") != "struct":
            return None
        f = next((x for x in it.get("fields", []) if x["name"] == name), None)
        if f is None:
            return None
        ty = f["ty"]
        if ty.get("k") != "raw":
            return ty
        cur = ty["p"]
    return ty


def eval_case(pid, pl, res, case, obs, kf_class=None):
    cid, ptr, oracle = case["id"], case["input"]["ptr"], case["oracle"]
    if pid == "C06" and oracle["mustReject"] and obs["accepted"]:
        res.violation("a derived vftable block that does not repeat the base slots is accepted", payload(case, obs), kf_class)
        return
    if not obs["accepted"]:
        return
    problems = []
    for t in oracle["types"]:
        path = t["path"]
        mp = path[:-1]
        it = proj_item(obs, path)
        if it is None or it.get("k") != "struct":
            problems.append(f"{t['name']}: struct not emitted")
            continue
        fields = [f["name"] for f in it.get("fields", [])]
        acc = it.get("vftacc", {})
        # fields called `vftable` that the description itself declares (legal when the type does not own a pointer)
        dfn = next((x for m in case["input"]["mods"] if m["path"] == mp for x in m["defs"] if x["name"] == t["name"]), None)
        declared_vft = sum(1 for f in (dfn or {}).get("fields", []) if f["name"] == "vftable")
        if pid == "C06":
            if t["baseHasVft"]:
                if fields.count("vftable") != declared_vft:
                    problems.append(f"{t['name']} has its own vftable pointer although its first base carries one")
                if acc.get("has") and acc.get("via") == "?":
                    res.notes.append(f"case {cid}: {t['name']}::vftable() has an unrecognised body (decided by execution only)")
                elif not acc.get("has") or acc.get("via") != t["firstBase"]:
                    problems.append(f"{t['name']}::vftable() does not return the pointer stored in base `{t['firstBase']}` (via={acc.get('via')})")
                if t["ownBlock"] and acc.get("has") and acc.get("ty") != {"k": "cptr", "t": {"k": "raw", "p": mp + [t["name"] + "Vftable"]}}:
                    problems.append(f"{t['name']}::vftable() is not typed as the derived table ({acc.get('ty')})")
            elif t["ownBlock"]:
                if fields[:1] != ["vftable"] or fields.count("vftable") != 1:
                    problems.append(f"{t['name']}: the vftable pointer is not a single first field ({fields})")
                for tgt in pl.targets_for(ptr):
                    l = pl.layout_of(tgt, cid, path, it)
                    if l and l["offs"].get("vftable") != 0:
                        problems.append(f"{t['name']}: vftable pointer at offset {l['offs'].get('vftable')} under {tgt}")
                if acc.get("has") and acc.get("via") == "?":
                    res.notes.append(f"case {cid}: {t['name']}::vftable() has an unrecognised body (decided by execution only)")
                elif not acc.get("has") or acc.get("via") != "":
                    problems.append(f"{t['name']}::vftable() does not read the type's own pointer")
            else:
                if acc.get("has") or fields.count("vftable") != declared_vft:
                    problems.append(f"{t['name']} has a vftable pointer/accessor although nothing declares one")
            if t["ownBlock"]:
                tab = proj_item(obs, mp + [t["name"] + "Vftable"])
                want = [s["name"] for s in t["table"]]
                got = [f["name"] for f in (tab or {}).get("fields", [])]
                if tab is None or len(got) != len(want) or any(w and w != g for w, g in zip(want, got)):
                    problems.append(f"{t['name']}Vftable slots {got}, expected {want}")
        elif pid == "C04":
            # the type's table, inherited slots included: one wrapper per callable slot, dispatching through that slot of the
            # type's own table accessor; the emitted table struct of a type with a block lists the slots in order
            meths = {m["name"]: m for m in it.get("methods", [])}
            # nothing is dispatched through a table but the callable slots of the type's own (declared or inherited) table
            callable_slots = {s["name"] for s in t["table"] if not s["pad"] and not s["name"].startswith("_")}
            stray = sorted(n for n, m in meths.items() if m["body"].get("k") == "vft" and n not in callable_slots)
            if stray:
                problems.append(f"{t['name']}: wrappers {stray} dispatch through a vftable although they are no slots of the type's table")
            if not t["table"]:
                continue
            for s in t["table"]:
                if s["pad"] or s["name"].startswith("_"):
                    continue
                m = meths.get(s["name"])
                if m is None:
                    problems.append(f"{t['name']}: no wrapper for virtual function `{s['name']}` of its table")
                elif m["body"].get("k") == "unknown":
                    res.notes.append(f"case {cid}: {t['name']}::{s['name']} has an unrecognised body (decided by execution only)")
                elif m["body"].get("k") != "vft" or m["body"].get("fn") != s["name"]:
                    problems.append(f"{t['name']}::{s['name']} dispatches through `{m['body'].get('fn')}` ({m['body'].get('k')})")
            if t["ownBlock"]:
                tab = proj_item(obs, mp + [t["name"] + "Vftable"])
                want = [s["name"] for s in t["table"]]
                got = [f["name"] for f in (tab or {}).get("fields", [])]
                if tab is None or len(got) != len(want) or any(w and w != g for w, g in zip(want, got)):
                    problems.append(f"{t['name']}Vftable slots {got}, expected {want}")
                for tgt in pl.targets_for(ptr):
                    l = pl.layout_of(tgt, cid, mp + [t["name"] + "Vftable"], tab)
                    if l and tab:
                        for i, f in enumerate(tab.get("fields", [])):
                            if l["offs"].get(f["name"]) != i * ptr:
                                problems.append(f"{t['name']}Vftable slot {i} `{f['name']}` at offset {l['offs'].get(f['name'])} under {tgt}")
                                break
        elif pid == "C07":
            fwd = [m for m in it.get("methods", []) if m["body"].get("k") == "field"]
            unknown = [m["name"] for m in it.get("methods", []) if m["body"].get("k") == "unknown"]
            if unknown:
                res.notes.append(f"case {cid}: {t['name']} has wrappers of unrecognised shape {unknown} (not judged)")
                continue
            want = sorted((e["name"], e["field"], e["orig"]) for e in t["exposed"])
            got = sorted((m["name"], m["body"]["f"], m["body"]["fn"]) for m in fwd)
            if want != got:
                problems.append(f"{t['name']} re-exposes {got}, expected {want}")
            for m in fwd:
                named = [a["name"] for a in m["args"] if a["k"] == "named"]
                passed = [a.get("name") if a["k"] == "named" else a["k"] for a in m["body"].get("callargs", [])]
                if passed != named:
                    problems.append(f"{t['name']}::{m['name']} forwards {passed}, declared arguments {named}")
                if m["vis"] != "pub":
                    problems.append(f"{t['name']}::{m['name']} is not public")
                if not any(a["k"] in ("cself", "mself") for a in m["args"]):
                    pass
            want_refs = sorted((tuple(a["ty"]), tuple(a["path"])) for a in t["asrefs"])
            for key in ("asrefs", "asmuts"):
                entries = [a for a in it.get(key, []) if a["path"] or not a.get("shape_ok", True)]
                if any(not a.get("shape_ok", True) for a in entries):
                    # which conversions exist is read from the impl headers; where they point is decided by execution
                    res.notes.append(f"case {cid}: {t['name']} {key} bodies of unrecognised shape (paths decided by execution only)")
                    got_tys = sorted(tuple(a["ty"].get("p", [])) for a in entries)
                    if got_tys != sorted(w[0] for w in want_refs):
                        problems.append(f"{t['name']} {key}: conversions to {got_tys}, expected {sorted(w[0] for w in want_refs)}")
                    continue
                got_refs = sorted((tuple(a["ty"].get("p", [])), tuple(a["path"])) for a in entries)
                if got_refs != want_refs:
                    problems.append(f"{t['name']} {key}: {got_refs}, expected {want_refs}")
                for a in it.get(key, []):
                    if a["path"]:
                        ft = field_chain_type(obs, path, a["path"])
                        if ft != a["ty"]:
                            problems.append(f"{t['name']} {key}<{a['ty'].get('p')}> returns field {'.'.join(a['path'])} of type {ft}")
        elif pid == "C16":
            if t["ownBlock"]:
                tab = proj_item(obs, mp + [t["name"] + "Vftable"])
                for i, (s, f) in enumerate(zip(t["table"], (tab or {}).get("fields", []))):
                    if f["ty"].get("k") == "fn" and f["ty"].get("cc") != s["cc"]:
                        problems.append(f"{t['name']}Vftable slot {i} `{f['name']}` has convention {f['ty'].get('cc')}, expected {s['cc']}")
                # the same function has the same convention in every derived table
                for i, (s, f) in enumerate(zip(t["baseTable"], (tab or {}).get("fields", []))):
                    if f["ty"].get("k") == "fn" and f["ty"].get("cc") != s["cc"]:
                        problems.append(f"{t['name']}Vftable slot {i} `{f['name']}` has convention {f['ty'].get('cc')} but the base table "
                                        f"declares {s['cc']} for that slot")
    if pid == "C06" and ptr == 8 and cid in pl.cfail["host"]:
        from .compile import in_fragment
        if in_fragment(case):
            # e.g. an accessor that returns the base's table pointer without reinterpreting it as the derived table type
            problems.append(f"the emitted hierarchy does not type-check: {pl.cfail['host'][cid].strip()[:200]}")
    if problems:
        res.violation("; ".join(problems[:3]), payload(case, obs), kf_class)


def run_inherit(pid, tier, res=None, finish=True):
    res = res or Result(pid, tier)
    pl = Pipeline(tier, module="MC_Inherit", cfgs=CFG, name="inherit")
    pl.compile()
    cov = pl.base_coverage()
    n_checked = n_model = n_acc = 0
    for case, obs in pl.pairs():
        cid = case["id"]
        if pid in case.get("pviol", []):
            n_model += 1
        d = []
        if obs["accepted"] != case["accepted"]:
            d.append(f"verdict: code {obs['outcome']} vs mirror {'ok' if case['accepted'] else 'err:' + case['err']}")
        elif obs["accepted"]:
            d += conform.reg_drift(case["mirror"]["reg"], obs.get("reg"))
            d += conform.files_drift(case["mirror"]["out"], obs.get("files"))
        res.add_drift(d, cid)
        n_checked += 1
        n_acc += 1 if obs["accepted"] else 0
        eval_case(pid, pl, res, case, obs)
        if cid % 397 == 0 and obs["accepted"]:
            res.sample({"types": [{k: t[k] for k in ("name", "exposed", "asrefs", "baseHasVft", "ownBlock")} for t in case["oracle"]["types"]],
                        "ptr": case["input"]["ptr"]})
    if pid in ("C04", "C06", "C07"):
        from . import execrig, execplan
        execrig.apply(pl, res, lambda c: execplan.plan_inherit(c, pid), payload, cov)
    cov.update({"evaluations": n_checked, "distinct_nontrivial": n_checked, "accepted_by_code": n_acc,
                "rule": "every hierarchy enumerated by TLC for MC_Inherit (base tables, every variant of the derived block, second base, "
                        "name clashes, depth 2, diamonds) replayed into pyxis; emitted structs, accessors, forwarded wrappers and "
                        "AsRef/AsMut impls read with syn; pointer offsets from the compilers",
                "model_level_violations": n_model,
                "rustc_rejected_cases": {t: len(v) for t, v in pl.cfail.items()}})
    if not finish:
        return res, cov
    res.coverage = cov
    res.assumptions = ["wrapper bodies are classified by shape; an unrecognised shape is never judged",
                       "the receiver seen by a forwarded callee is checked by execution in the exec rig, here by shape (self.<field>.<fn>(..))"]
    return res.finish()
