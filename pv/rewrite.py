"""C20: equivalent descriptions produce identical bindings (MC_Rewrite)."""
import json, os
from .common import *
from . import tlc, harness
from .layout import Pipeline, payload
from .result import Result

CFG = {"quick": ["MC_Rewrite_q1.cfg"], "thorough": ["MC_Rewrite_q1.cfg", "MC_Rewrite_t1.cfg"]}


def sig(obs):
    return ("ok", tuple((f["rel"], f["hash"]) for f in obs.get("files", []))) if obs.get("accepted") else ("err",)


def run_rewrite(pid, tier):
    res = Result(pid, tier)
    d = os.path.join(WORK, "run", f"rewrite-{tier}")
    pl = Pipeline(tier, module="MC_Rewrite", cfgs=CFG, name="rewrite",
                  replay_flags=["--emit-dir", os.path.join(d, "emit"), "--sched"])
    cov = pl.base_coverage()
    # expand the rewritten descriptions into cases of their own
    vpath = os.path.join(pl.dir, "variants.ndjson")
    meta, bases = {}, {}
    n_model = 0
    seen = set()
    with open(vpath, "w") as f:
        for case, obs in pl.pairs():
            if pid in case.get("pviol", []):
                n_model += 1
            key = sha(json.dumps(case["input"], sort_keys=True))
            if key in seen:
                continue
            seen.add(key)
            # kept for the comparison and the report: without the variants, the mirror prediction and the projections
            bases[case["id"]] = ({k: v for k, v in case.items() if k not in ("variants", "mirror")},
                                 {k: ([{"rel": f["rel"], "hash": f["hash"]} for f in v] if k == "files" else v)
                                  for k, v in obs.items() if k not in ("reg", "events")})
            for k, v in enumerate(case.get("variants", [])):
                vid = case["id"] * 1000 + k + 1
                meta[vid] = (case["id"], v["r"])
                f.write(json.dumps({"id": vid, "input": v["input"], "order": [], "sched": []}) + "\n")
            # spelling: the same description printed with another style (number bases, separators, trivia)
            vid = case["id"] * 1000
            meta[vid] = (case["id"], [["respell", 0]])
            f.write(json.dumps({"id": vid, "input": case["input"], "order": [], "sched": []}) + "\n")
    vobs_path, nv = harness.replay(vpath, os.path.join(pl.dir, "vrp"),
                                   ["--emit-dir", os.path.join(pl.dir, "vemit"), "--style-seed", str(seed() + 7919)])
    n_checked = 0
    kinds = {}
    for o in tlc.read_ndjson(vobs_path):
        bid, r = meta[o["id"]]
        case, bobs = bases[bid]
        if not bobs["accepted"]:
            continue
        n_checked += 1
        name = "+".join(x[0] for x in r)
        kinds[name] = kinds.get(name, 0) + 1
        if sig(o) != sig(bobs):
            what = ("rejected" if not o.get("accepted") else "different output bytes")
            res.violation(f"rewrite {name} of an accepted description gives {what} ({str(o.get('msg'))[:100]})",
                          payload(case, bobs, {"rewrite": r, "rewritten_outcome": o.get("outcome"),
                                               "base_files": bobs.get("files"), "rewritten_files": o.get("files")}))
        if len(res.samples) < 5 and n_checked % 1500 == 0:
            res.sample({"rewrite": r, "base": case["input"]["mods"][0]["defs"][0]["fields"], "same_bytes": sig(o) == sig(bobs)})
    cov["traces_validated_against_impl"] += nv
    cov.update({"evaluations": n_checked, "distinct_nontrivial": n_checked, "rewrites_by_kind": kinds,
                "rule": "every applicable rewrite (explicit address, gap <-> address, natural size, explicit index, explicit enum value, "
                        "reordered definitions, another spelling), singly and in compatible pairs, of every accepted description of "
                        "MC_Rewrite; original and rewritten text both built by pyxis and the output bytes compared",
                "model_level_violations": n_model})
    res.coverage = cov
    res.assumptions = ["natural offsets / slots / values used by the rewrites are computed by the specification (Starts, DeclSlots, resolved values)"]
    return res.finish()
