"""C14: one output file per module with every declared item exactly once, prologues first,
epilogues last; duplicates rejected.  Replayed through pyxis::build on a real directory tree."""
import json, os, re
from .common import *
from . import tlc
from .layout import Pipeline, payload
from .result import Result

CFG = {"quick": ["MC_Files_q1.cfg"], "thorough": ["MC_Files_q1.cfg"]}
GENERATED = ("struct", "enum", "sizecheck", "singleton", "impl", "traitimpl", "accessor", "conflict")


def const_names(texts):
    out = []
    for t in texts:
        out += re.findall(r"const\s+(\w+)", t)
    return out


def run_files(pid, tier):
    res = Result(pid, tier)
    d = os.path.join(WORK, "run", f"files-{tier}")
    # the file mapping itself (module <-> source file <-> output file) holds its invariants on a bounded universe of trees
    fm = tlc.run_tlc("MC_FilesMap", "MC_FilesMap_q1.cfg", fresh_dir("run", f"filesmap-{tier}"), workers=1, timeout=300)
    if fm["violation"]:
        raise ToolError("MC_FilesMap: " + fm["violation"]["text"][:1000])
    from .bounds import tlaps_proofs
    fp = tlaps_proofs("FilesProofs", needs=("FilesCore.tla",),
                      theorems=("SamePlace: the module of any source file is written to the same relative place; file -> module -> file is the identity",
                                "ModuleInjective: different source files are different modules"))
    pl = Pipeline(tier, module="MC_Files", cfgs=CFG, name="files",
                  replay_flags=["--emit-dir", os.path.join(d, "emit"), "--project", "--via-fs"])
    cov = pl.base_coverage()
    cov["tlaps"] = fp
    cov["filesmap_states"] = fm.get("distinct")
    n_checked = n_model = n_acc = 0
    seen = set()
    for case, obs in pl.pairs():
        cid, oracle = case["id"], case["oracle"]
        key = sha(json.dumps(case["input"], sort_keys=True))
        if key in seen:
            continue           # the same input under another module order: pyxis::build discovers files itself
        seen.add(key)
        kf = [k for k in oracle.get("kf", []) if k.startswith(pid + ":")]
        kf_class = kf[0] if kf else None
        if pid in case.get("pviol", []):
            n_model += 1
        n_checked += 1
        if oracle["duplicate"]:
            if obs["accepted"]:
                res.violation("two declarations that produce the same item are accepted (one silently overwrites the other)",
                              payload(case, obs), kf_class)
            continue
        if not obs["accepted"]:
            # a prologue that is not Rust makes the build fail (every time): nothing to compare, and no disagreement either
            unparsable = any(b["name"] == "rust" and "this is not rust" in b["pro"] for m in case["input"]["mods"] for b in m["backs"])
            if not unparsable:
                res.add_drift([f"valid tree rejected: {obs.get('msg')}"], cid)
            continue
        n_acc += 1
        problems = []
        # where each module is written: the mapping of spec/Files.tla (OutRel), not a computation of this driver
        want_files = {f["outrel"]: f for f in oracle["files"]}
        got_files = {f["rel"]: f for f in obs.get("files", [])}
        if set(want_files) != set(got_files):
            problems.append(f"output files {sorted(got_files)}, expected {sorted(want_files)}")
        for rel, want in want_files.items():
            got = got_files.get(rel)
            if got is None:
                continue
            proj = got.get("proj")
            if proj is None:
                problems.append(f"{rel} is not valid Rust: {got.get('proj_err')}")
                continue
            items = proj["items"]
            structs = sorted(n for n, it in items.items() if it.get("k") == "struct")
            enums = sorted(n for n, it in items.items() if it.get("k") == "enum")
            multi = [n for n, it in items.items() if it.get("count", 0) > 1]
            if structs != sorted(want["structs"]):
                problems.append(f"{rel}: structs {structs}, declared {sorted(want['structs'])}")
            if enums != sorted(want["enums"]):
                problems.append(f"{rel}: enums {enums}, declared {sorted(want['enums'])}")
            if multi:
                problems.append(f"{rel}: {multi} emitted more than once")
            acc = sorted(e["name"] for e in proj["evals"])
            if acc != sorted(want["accessors"]):
                problems.append(f"{rel}: accessors {acc}, declared {sorted(want['accessors'])}")
            if proj["doc"] != want["doc"]:
                problems.append(f"{rel}: module doc {proj['doc']}, declared {want['doc']}")
            # prologues first, epilogues last, complete, in source order, nothing of other backends.  Top-level items that are
            # neither recognised generated items nor named in any backend text (helper items a future pyxis might emit) are
            # not attributed to anybody and not judged.
            top = proj["top"]
            pro, epi = const_names(want["pro"]), const_names(want["epi"])
            mod_in = next(m for m in case["input"]["mods"] if "/".join(m["path"]) + ".rs" == rel)
            others = const_names([t for b in mod_in["backs"] if b["name"] != "rust" for t in (b["pro"], b["epi"])])
            foreign = [t["name"] for t in top if t["kind"] == "foreign"]
            leaked = [n for n in foreign if n in others and n not in pro + epi]
            if leaked:
                problems.append(f"{rel}: text of another backend is included: {leaked}")
            known = [n for n in foreign if n in pro + epi]
            if known != pro + epi:
                problems.append(f"{rel}: backend items {known}, expected prologues {pro} then epilogues {epi}")
            else:
                seen_k, order = 0, []
                for t in top:
                    if t["kind"] == "foreign":
                        if t["name"] in pro + epi:
                            order.append("pro" if seen_k < len(pro) else "epi")
                            seen_k += 1
                    else:
                        order.append("gen")
                if order != sorted(order, key=lambda k: {"pro": 0, "gen": 1, "epi": 2}[k]):
                    problems.append(f"{rel}: prologue/items/epilogue out of order: {order}")
                extras = [n for n in foreign if n not in pro + epi and n not in others]
                if extras:
                    res.notes.append(f"case {cid}: {rel} holds top-level items of unknown origin {extras[:4]} (not judged)")
        if problems:
            res.violation("; ".join(problems[:3]), payload(case, obs), kf_class)
        if len(res.samples) < 4:
            res.sample({"modules": [(m["path"], [x["name"] for x in m["defs"]], [b["name"] for b in m["backs"]]) for m in case["input"]["mods"]],
                        "files": sorted(got_files)})
    # ---- names that differ only by the raw-identifier prefix, repeated extern values (MC_Names): two declarations of one item
    pn = Pipeline(tier, module="MC_Names", cfgs={"quick": ["MC_Names_q1.cfg"], "thorough": ["MC_Names_q1.cfg"]}, name="files-names")
    bn = pn.base_coverage()
    for k in ("states", "transitions", "traces_validated_against_impl"):
        cov[k] += bn[k]
    cov["tlc"] = [cov["tlc"], bn["tlc"]]; cov["checker_cmd"] += " ; " + bn["checker_cmd"]
    for case, obs in pn.pairs():
        n_checked += 1
        if pid in case.get("pviol", []):
            n_model += 1
        if case["oracle"]["sameItem"] and obs["accepted"]:
            res.violation("two declarations of one module that denote the same Rust item are accepted (the emitted file defines the item twice, "
                          "or one declaration silently stands for the other)", payload(case, obs))
        elif not case["oracle"]["clash"] and not obs["accepted"]:
            res.add_drift([f"clash-free names rejected: {obs.get('msg')}"], case["id"])
    cov.update({"evaluations": n_checked, "distinct_nontrivial": n_checked, "accepted_by_code": n_acc,
                "rule": "every module tree x backend-block set x collision of MC_Files written to a real directory and built with "
                        "pyxis::build; output directory listing and top-level items of each file (syn) compared with the declared items",
                "model_level_violations": n_model})
    res.coverage = cov
    res.assumptions = ["prologue / epilogue texts are single const items so that they can be recognised in the output"]
    return res.finish()


def _foreign_index(top):
    """for each top entry, the running index among foreign entries (used to tell prologue from epilogue)"""
    out, n = [], 0
    for t in top:
        out.append(n)
        if t["kind"] == "foreign":
            n += 1
    return out
