"""./bin/check <id> --replay <file>: re-run the stored case against the current /repo tree and
report whether the recorded observation reproduces."""
import json, os, subprocess
from .common import *
from . import harness, tlc


def replay(pid, path):
    build_harness()
    p = json.load(open(path))
    d = fresh_dir("replay", pid)
    if "input" not in p:
        log(f"{pid}: this replay file carries no abstract input (what: {p.get('what')}); stored detail:")
        print(json.dumps({k: v for k, v in p.items() if k not in ("input",)}, indent=1)[:4000])
        return EXIT_OK
    case = {"id": 1, "input": p["input"], "order": p.get("order") or [], "sched": p.get("sched") or []}
    cp = os.path.join(d, "case.ndjson")
    open(cp, "w").write(json.dumps(case) + "\n")
    flags = ["--emit-dir", os.path.join(d, "emit"), "--project", "--keep-text", "--events"]
    flags += ["--via-fs"] if p.get("group") == "files" else ["--sched"]
    obs_path, _ = harness.replay(cp, os.path.join(d, "rp"), flags, jobs=1)
    obs = next(tlc.read_ndjson(obs_path))
    print(f"property {pid}: {p.get('what')}")
    for m, t in zip(p["input"]["mods"], obs.get("texts", [])):
        print(f"---- {'/'.join(m['path'])}.pyxis (pointer width {p['input']['ptr']})")
        print(t)
    print("---- observed now:", json.dumps({k: obs.get(k) for k in ("outcome", "accepted", "class", "msg", "nonterm") if k in obs}))
    print("---- recorded    :", json.dumps(p.get("observed")))
    for f in obs.get("files", []):
        print(f"---- emitted {f['rel']} ({f['hash']})")
    same = (p.get("observed") or {}).get("outcome") == obs.get("outcome")
    print("reproduced" if same else "outcome differs from the recorded one")
    if same:
        print(f"VIOLATION property={pid} replay={path}")
        return EXIT_VIOLATION
    return EXIT_OK
