"""./bin/check <id> --replay <file>: re-run the stored case against the current /repo tree and
report whether the recorded observation reproduces."""
import json, os, subprocess
from .common import *
from . import harness, tlc


def replay(pid, path):
    build_harness()
    p = json.load(open(path))
    d = fresh_dir("replay", pid)
    if p.get("group") in ("parse", "parsegen") and "toks" in p:
        # a token sequence decided by the language specification: print it again and ask the parser
        rec = {"id": 1, "toks": p["toks"], "ok": p["spec"]["ok"], "at": p["spec"]["at"], "gmod": p["spec"].get("gmod") or []}
        cp = os.path.join(d, "case.ndjson")
        open(cp, "w").write(json.dumps(rec) + "\n")
        op = os.path.join(d, "obs.ndjson")
        r = subprocess.run([PVH, "ptoks", "--in", cp, "--out", op, "--n", "4", "--seed", str(seed())], stdout=subprocess.PIPE, stderr=subprocess.STDOUT, text=True)
        if r.returncode != 0:
            raise ToolError("pvh ptoks failed: " + r.stdout[-1000:])
        o = next(tlc.read_ndjson(op))
        print(f"property {pid}: {p.get('what')}")
        print("---- recorded text:"); print(p.get("text"))
        print("---- specification:", json.dumps({"accepts": p["spec"]["ok"], "rejects_at_token": p["spec"]["at"]}))
        for pr in o["problems"][:2]:
            print("---- observed now :", pr["kind"], json.dumps(pr["detail"])[:400]); print(pr["text"])
        if o["problems"]:
            print("reproduced")
            print(f"VIOLATION property={pid} replay={path}")
            return EXIT_VIOLATION
        print("the parser now agrees with the specification on this sequence")
        return EXIT_OK
    if "input" not in p:
        log(f"{pid}: this replay file carries no abstract input (what: {p.get('what')}); stored detail:")
        print(json.dumps({k: v for k, v in p.items() if k not in ("input",)}, indent=1)[:4000])
        return EXIT_OK
    case = {"id": 1, "input": p["input"], "order": p.get("order") or [], "sched": p.get("sched") or []}
    if p.get("toks"):
        case["toks"] = p["toks"]      # text-level family: the stored token sequence is the text
    cp = os.path.join(d, "case.ndjson")
    open(cp, "w").write(json.dumps(case) + "\n")
    flags = ["--emit-dir", os.path.join(d, "emit"), "--project", "--keep-text", "--events"]
    flags += ["--via-fs"] if p.get("group") == "files" else ["--sched"]
    obs_path, _ = harness.replay(cp, os.path.join(d, "rp"), flags, jobs=1)
    obs = next(tlc.read_ndjson(obs_path))
    print(f"property {pid}: {p.get('what')}")
    for m, t in zip(p["input"]["mods"], obs.get("texts", [])):
        print(f"---- {'/'.join(m['path'])}.pyxis (pointer width {p['input']['ptr']})")
        print(t)
    print("---- observed now:", json.dumps({k: obs.get(k) for k in ("outcome", "accepted", "class", "msg", "nonterm") if k in obs}))
    print("---- recorded    :", json.dumps(p.get("observed")))
    for f in obs.get("files", []):
        print(f"---- emitted {f['rel']} ({f['hash']})")
    same = (p.get("observed") or {}).get("outcome") == obs.get("outcome")
    print("reproduced" if same else "outcome differs from the recorded one")
    if same:
        print(f"VIOLATION property={pid} replay={path}")
        return EXIT_VIOLATION
    return EXIT_OK
