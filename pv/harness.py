"""Driving the Rust harness (pvh): parallel replay with hang / abort recovery."""
import json, os, subprocess, time
from concurrent.futures import ThreadPoolExecutor
from .common import *


def _split(path, n, outdir):
    """split an ndjson file into n chunks round-robin by blocks; returns chunk paths"""
    with open(path) as f:
        lines = [l for l in f if l.strip()]
    n = max(1, min(n, (len(lines) + 199) // 200))
    per = (len(lines) + n - 1) // n
    paths = []
    for i in range(n):
        cp = os.path.join(outdir, f"cases.{i}.ndjson")
        with open(cp, "w") as f:
            f.writelines(lines[i * per:(i + 1) * per])
        paths.append((cp, len(lines[i * per:(i + 1) * per])))
    return paths, len(lines)


def _run_chunk(chunk, nlines, obs_path, flags, timeout_ms, mem_kb):
    """run pvh replay on one chunk; a hang (exit 3) or an abort of the process (allocation
    failure, stack overflow) is recorded for the offending case and the run resumes after it"""
    if os.path.exists(obs_path):
        os.remove(obs_path)
    open(obs_path, "w").close()
    skip = 0
    guard = 0
    while skip < nlines:
        guard += 1
        if guard > 25:
            # the code under test hangs or dies on case after case: the verdict is already clear;
            # the rest of the chunk is recorded as not run
            with open(chunk) as f:
                rest = [json.loads(l).get("id", -1) for i, l in enumerate(f) if i >= skip and l.strip()]
            with open(obs_path, "a") as f:
                for cid in rest:
                    f.write(json.dumps({"id": cid, "outcome": "skipped", "accepted": False, "msg": "not run: too many hangs/aborts before it"}) + "\n")
            return
        cmd = f"ulimit -v {mem_kb}; exec {PVH} replay --in {chunk} --out {obs_path} --skip {skip} --timeout-ms {timeout_ms} " + " ".join(flags)
        p = subprocess.run(["bash", "-c", cmd], stdout=subprocess.PIPE, stderr=subprocess.STDOUT, text=True)
        with open(obs_path) as f:
            done = sum(1 for l in f if l.strip())
        if p.returncode == 0:
            if done != nlines:
                raise ToolError(f"harness wrote {done} of {nlines} observations for {chunk}")
            return
        if p.returncode == 3:
            skip = done          # the hang record was appended by the watchdog
            continue
        if p.returncode == 2:
            raise ToolError("harness usage/input error: " + p.stdout[-2000:])
        # killed or aborted inside a case: the first case without an observation is the culprit
        with open(chunk) as f:
            for i, l in enumerate(f):
                if i == done:
                    cid = json.loads(l).get("id", -1)
                    break
        with open(obs_path, "a") as f:
            f.write(json.dumps({"id": cid, "outcome": "abort", "accepted": False,
                                "msg": f"process died with status {p.returncode}: {p.stdout[-300:]}"}) + "\n")
        skip = done + 1


def replay(cases_path, outdir, flags, jobs=12, timeout_ms=10000, mem_kb=4_000_000):
    """returns path of the merged observation file (same order as cases)"""
    os.makedirs(outdir, exist_ok=True)
    chunks, total = _split(cases_path, jobs, outdir)
    obs_paths = [os.path.join(outdir, f"obs.{i}.ndjson") for i in range(len(chunks))]
    with ThreadPoolExecutor(max_workers=len(chunks)) as ex:
        futs = [ex.submit(_run_chunk, c, n, o, flags, timeout_ms, mem_kb) for (c, n), o in zip(chunks, obs_paths)]
        for f in futs:
            f.result()
    merged = os.path.join(outdir, "obs.ndjson")
    with open(merged, "w") as out:
        for o in obs_paths:
            with open(o) as f:
                for l in f:
                    out.write(l)
            os.remove(o)
    for c, _ in chunks:
        os.remove(c)
    return merged, total
