"""C04 (vftable slots) and C16 (calling conventions) on MC_Vft."""
import json, os
from .common import *
from . import conform
from .layout import Pipeline, payload, proj_item
from .result import Result

CFG = {"quick": ["MC_Vft_q1.cfg"], "thorough": ["MC_Vft_t1.cfg"]}


def run_vft(pid, tier, res=None, finish=True):
    res = res or Result(pid, tier)
    pl = Pipeline(tier, module="MC_Vft", cfgs=CFG, name="vft")
    pl.compile()
    cov = pl.base_coverage()
    n_checked = n_model = 0
    distinct = set()
    SEVEN = {"C", "cdecl", "stdcall", "fastcall", "thiscall", "vectorcall", "system"}

    def strip_cc(case):
        """the input with every convention name removed (the key under which a case and its siblings that differ only in
        convention names meet), and the set of names it uses"""
        inp = json.loads(json.dumps(case["input"]))
        names = set()
        for m in inp["mods"]:
            for d in m["defs"]:
                for f in d.get("vft", {}).get("funcs", []):
                    names.add(f["cc"]); f["cc"] = ""
            for im in m["impls"]:
                for f in im["funcs"]:
                    names.add(f["cc"]); f["cc"] = ""
        return json.dumps(inp, sort_keys=True), names - {""}

    plain_ok = set()
    if pid == "C16":
        for case, obs in pl.pairs():
            key, names = strip_cc(case)
            if not names and obs["accepted"]:
                plain_ok.add(key)
    for case, obs in pl.pairs():
        cid, ptr, oracle = case["id"], case["input"]["ptr"], case["oracle"]
        kf = [k for k in oracle.get("kf", []) if k.startswith(pid + ":")]
        kf_class = kf[0] if kf else None
        if pid in case.get("pviol", []):
            n_model += 1
        d = []
        if obs["accepted"] != case["accepted"]:
            d.append(f"verdict: code {obs['outcome']} vs mirror {'ok' if case['accepted'] else 'err:' + case['err']}")
        elif obs["accepted"]:
            d += conform.reg_drift(case["mirror"]["reg"], obs.get("reg"))
            d += conform.files_drift(case["mirror"]["out"], obs.get("files"))
        res.add_drift(d, cid)
        vdef = case["input"]["mods"][0]["defs"][0]
        n_checked += 1
        distinct.add(json.dumps([vdef["vft"], case["input"]["mods"][0]["impls"]], sort_keys=True) + str(ptr))
        if pid == "C04":
            if oracle["contradictory"]:
                if obs["accepted"]:
                    res.violation("a declared index / table size that contradicts the slot positions is accepted",
                                  payload(case, obs), kf_class)
                continue
            if not obs["accepted"]:
                continue
            tab = proj_item(obs, ["m", "VVftable"])
            v = proj_item(obs, ["m", "V"])
            want = oracle["table"]
            if tab is None or tab.get("k") != "struct" or v is None:
                res.violation("accepted but no VVftable struct / V struct emitted", payload(case, obs), kf_class)
                continue
            fields = tab.get("fields", [])
            problems = []
            if len(fields) != len(want):
                problems.append(f"table has {len(fields)} slots, expected {len(want)}")
            else:
                declared = {f["name"] for f in vdef["vft"]["funcs"]}
                for i, (f, w) in enumerate(zip(fields, want)):
                    if f["ty"].get("k") != "fn":
                        problems.append(f"slot {i} is not a function pointer")
                        continue
                    if not w["pad"] and f["name"] != w["name"]:
                        problems.append(f"slot {i} holds `{f['name']}`, declared `{w['name']}`")
                    if w["pad"] and (f["name"] in declared or f["vis"] != "priv"):
                        problems.append(f"slot {i} should be a private placeholder, is `{f['name']}`")
                    if len(f["ty"]["args"]) != w["nargs"] or (f["ty"]["ret"]["k"] != "none") != w["hasret"]:
                        problems.append(f"slot {i} `{f['name']}` has a different signature than declared")
            for tgt in pl.targets_for(ptr):
                if cid in pl.cfail[tgt]:
                    continue
                l = pl.layout_of(tgt, cid, ["m", "VVftable"], tab)
                if l is None:
                    problems.append(f"no layout for VVftable under {tgt}")
                    continue
                for i, f in enumerate(fields):
                    if l["offs"].get(f["name"]) != i * ptr:
                        problems.append(f"slot {i} at byte offset {l['offs'].get(f['name'])} under {tgt}, expected {i * ptr}")
                        break
                if l["size"] != len(want) * ptr:
                    problems.append(f"table size {l['size']} under {tgt}, expected {len(want) * ptr}")
                lv = pl.layout_of(tgt, cid, ["m", "V"], v)
                if not v.get("fields") or v["fields"][0]["name"] != "vftable" or (lv and lv["offs"].get("vftable") != 0):
                    problems.append("the vftable pointer is not the first field at offset 0")
            meths = {m["name"]: m for m in v.get("methods", [])}
            for f in vdef["vft"]["funcs"]:
                m = meths.get(f["name"])
                if m is None:
                    problems.append(f"no wrapper for virtual function `{f['name']}`")
                elif m["body"].get("k") == "unknown":
                    res.notes.append(f"case {cid}: wrapper body of `{f['name']}` has an unrecognised shape (not judged)")
                elif m["body"].get("k") != "vft" or m["body"].get("fn") != f["name"]:
                    problems.append(f"wrapper `{f['name']}` dispatches through `{m['body'].get('fn')}` ({m['body'].get('k')})")
                else:
                    want_args = [a["k"] if a["k"] != "named" else a["name"] for a in f["args"]]
                    got_args = [a["k"] if a["k"] != "named" else a["name"] for a in m["body"].get("callargs", [])]
                    if want_args != got_args:
                        problems.append(f"wrapper `{f['name']}` passes {got_args}, declared order {want_args}")
            if problems:
                res.violation("; ".join(problems[:3]), payload(case, obs), kf_class)
            if cid % 211 == 0:
                res.sample({"vftable_block": vdef["vft"], "ptr": ptr, "expected_table": want,
                            "emitted_slots": [f["name"] for f in fields]})
        else:   # C16
            if oracle["badcc"]:
                if obs["accepted"]:
                    res.violation("an unknown calling convention name is accepted", payload(case, obs), kf_class)
                continue
            if not obs["accepted"]:
                # the same description without convention names builds, all names used are among the seven supported ones
                key, names = strip_cc(case)
                if names and names <= SEVEN and key in plain_ok:
                    res.violation(f"a description is rejected only because it names the supported convention(s) {sorted(names)}: "
                                  f"{str(obs.get('msg'))[:120]}", payload(case, obs), kf_class)
                continue
            tab = proj_item(obs, ["m", "VVftable"])
            v = proj_item(obs, ["m", "V"])
            problems = []
            if not oracle["contradictory"] and tab is not None:
                for i, (f, w) in enumerate(zip(tab.get("fields", []), oracle["table"])):
                    if f["ty"].get("k") == "fn" and f["ty"].get("cc") != w["cc"]:
                        problems.append(f"slot {i} `{f['name']}` has convention {f['ty'].get('cc')}, expected {w['cc']}")
            h = next((m for m in (v or {}).get("methods", []) if m["name"] == "h"), None)
            if h is None:
                problems.append("wrapper `h` missing")
            elif h["body"].get("k") == "addr":
                got = h["body"]["fnty"].get("cc")
                if got != oracle["implcc"]:
                    problems.append(f"wrapper `h` calls through an extern \"{got}\" pointer, expected {oracle['implcc']}")
            if problems:
                res.violation("; ".join(problems[:3]), payload(case, obs), kf_class)
            # the i686 compiler accepts the structs with the real conventions
            if ptr == 4 and cid in pl.cfail["i686"]:
                res.notes.append(f"case {cid}: i686 rejects the emitted definitions: {pl.cfail['i686'][cid]}")
            if cid % 211 == 0:
                res.sample({"funcs": [(f["name"], f["cc"]) for f in vdef["vft"]["funcs"]], "impl": case["input"]["mods"][0]["impls"],
                            "expected": [w["cc"] for w in oracle["table"]], "impl_expected": oracle["implcc"]})
    if pid == "C04":
        from . import execrig, execplan
        execrig.apply(pl, res, execplan.plan_vft, payload, cov)
    cov.update({"evaluations": n_checked, "distinct_nontrivial": len(distinct),
                "rule": "every vftable block / impl function combination enumerated by TLC for MC_Vft, replayed into pyxis; "
                        "slots, conventions and wrapper shapes read from the emitted code with syn, slot offsets from the compilers",
                "model_level_violations": n_model,
                "rustc_types_checked": {t: len(v) for t, v in pl.layouts.items()},
                "rustc_rejected_cases": {t: len(v) for t, v in pl.cfail.items()}})
    if not finish:
        return res, cov
    res.coverage = cov
    res.assumptions = ["wrapper bodies are classified by shape; an unrecognised shape is never judged",
                       "execution of the wrappers on the host is a separate step (exec rig)"]
    return res.finish()


def run_c04(tier):
    """C04 over the vftable-block space (MC_Vft) and over types that inherit their table (MC_Inherit)"""
    from . import inherit
    res = Result("C04", tier)
    _, cov1 = run_vft("C04", tier, res, finish=False)
    _, cov2 = inherit.run_inherit("C04", tier, res, finish=False)
    cov = dict(cov1)
    for k in ("states", "transitions", "traces_validated_against_impl", "evaluations", "distinct_nontrivial", "model_level_violations"):
        cov[k] = cov1.get(k, 0) + cov2.get(k, 0)
    cov["tlc"] = [cov1["tlc"], cov2["tlc"]]
    cov["checker_cmd"] = cov1["checker_cmd"] + " ; " + cov2["checker_cmd"]
    cov["executed_actions_inherited_tables"] = cov2.get("executed_actions", 0)
    cov["executed_actions"] = cov1.get("executed_actions", 0) + cov2.get("executed_actions", 0)
    res.coverage = cov
    res.assumptions = ["wrapper bodies are classified by shape; an unrecognised shape is never judged",
                       "execution on the 64-bit host with conventions normalised; a derived type is executed when its vftable pointer is its first word"]
    return res.finish()


def run_c16(tier):
    """C16 over both the vftable/impl space (MC_Vft) and inheritance chains (MC_Inherit)"""
    from . import inherit
    res = Result("C16", tier)
    _, cov1 = run_vft("C16", tier, res, finish=False)
    _, cov2 = inherit.run_inherit("C16", tier, res, finish=False)
    cov = dict(cov1)
    for k in ("states", "transitions", "traces_validated_against_impl", "evaluations", "distinct_nontrivial", "model_level_violations"):
        cov[k] = cov1.get(k, 0) + cov2.get(k, 0)
    cov["tlc"] = [cov1["tlc"], cov2["tlc"]]
    cov["checker_cmd"] = cov1["checker_cmd"] + " ; " + cov2["checker_cmd"]
    res.coverage = cov
    res.assumptions = ["ABI strings are read from the emitted fn-pointer types with syn",
                       "wrappers of receiver-less virtual functions are outside the compilable fragment; their slot types are still checked"]
    return res.finish()
