"""Verdicts, known findings, replay files and evidence."""
import json, os, time
from .common import *

KF_FILE = os.path.join(ROOT, "known_findings.json")


def load_known():
    if not os.path.exists(KF_FILE):
        return []
    return json.load(open(KF_FILE)).get("findings", [])


class Result:
    def __init__(self, pid, tier):
        self.pid, self.tier = pid, tier
        self.t0 = time.time()
        self.violations = []      # (key, what, replay payload)
        self.known_hits = {}      # finding id -> count
        self.drift = []           # strings
        self.drift_count = 0
        self.coverage = {}
        self.samples = []
        self.assumptions = []
        self.notes = []
        self.known = [k for k in load_known() if k.get("property") == pid and k.get("status") == "known"]

    # ---- verdicts
    def violation(self, what, payload, kf_class=None):
        """kf_class: the class key computed for this case (by the spec and/or the harness);
        if a *listed* known finding has that class the case is reported as KNOWN-FINDING"""
        if kf_class:
            for k in self.known:
                if k.get("class") == kf_class:
                    self.known_hits.setdefault(k["id"], {"count": 0, "what": k["what"]})["count"] += 1
                    return
        if len(self.violations) < 50:
            self.violations.append((what, payload))
        else:
            self.violations.append((what, None))

    def add_drift(self, items, case_id=None):
        if items:
            self.drift_count += 1
            if len(self.drift) < 20:
                self.drift.append({"case": case_id, "diffs": items[:4]})

    def sample(self, s):
        if len(self.samples) < 6:
            self.samples.append(s)

    # ---- output
    def finish(self, level="model_checking"):
        wall = round(time.time() - self.t0, 1)
        cov = dict(self.coverage)
        cov.setdefault("samples", self.samples or [{"note": "no behaviour sampled"}])
        cov["drift_cases"] = self.drift_count
        if self.drift:
            cov["drift_examples"] = self.drift[:5]
        cov["known_findings_hit"] = {k: v["count"] for k, v in self.known_hits.items()}
        if self.notes:
            cov["notes"] = self.notes
        ev = {"property_id": self.pid, "tier": self.tier, "seed": seed(), "level": level,
              "coverage": cov, "assumptions": self.assumptions, "wall_s": wall,
              "violations": len(self.violations)}
        write_json(os.path.join(EVID, self.pid + ".json"), ev)
        for kid, v in self.known_hits.items():
            print(f"KNOWN-FINDING: property={self.pid} {v['what']} [{kid}; {v['count']} case(s)]")
        if self.violations:
            os.makedirs(REPLAYS, exist_ok=True)
            first = None
            seen = set()
            for what, payload in self.violations:
                if payload is None:
                    continue
                key = sha(json.dumps(payload, sort_keys=True))
                path = os.path.join(REPLAYS, f"{self.pid}-{key}.json")
                if not os.path.exists(path):
                    write_json(path, {"property": self.pid, "what": what, **payload})
                if key not in seen and len(seen) < 10:
                    seen.add(key)
                    print(f"VIOLATION property={self.pid} replay={path}")
                    log(f"  {what}")
            log(f"{self.pid}: {len(self.violations)} violating case(s)")
            return EXIT_VIOLATION
        log(f"{self.pid} [{self.tier}]: held on everything explored ({wall}s)")
        return EXIT_OK
