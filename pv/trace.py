"""Direction B: evaluate the property predicates of the specification on observed behaviours
(PyxisTrace.tla).  Used for behaviours on which code and mirror disagree, and for the
random inputs beyond TLC's exhaustive bounds."""
import json, os, re, subprocess, time
from .common import *
from .tlc import unescape_tla

ABS_KEYS_STRUCT = ("k", "packed", "align", "fields")


def abstract_item(oi):
    """harness projection of an emitted item -> the shape of Emit.tla that RustLayout reads"""
    if oi.get("k") == "struct":
        r = oi.get("repr", {})
        return {"k": "struct", "packed": bool(r.get("packed")), "align": r.get("align", NONE),
                "reprc": bool(r.get("c")),
                "fields": [{"name": f["name"], "ty": f["ty"]} for f in oi.get("fields", [])]}
    if oi.get("k") == "enum":
        name = oi.get("repr", {}).get("int", "")
        return {"k": "enum", "repr": {"k": "raw", "p": [name]}, "fields": [], "packed": False, "align": NONE}
    return None


def record(case, obs, layouts_for, plain=False):
    """layouts_for(path) -> real layout dict or None"""
    files, real = [], []
    for f in obs.get("files", []) or []:
        proj = f.get("proj")
        if proj is None:
            continue
        mp = f["rel"][:-3].split("/")
        items = {}
        for n, oi in proj["items"].items():
            if oi.get("count") != 1:
                continue
            a = abstract_item(oi)
            if a is None:
                continue
            items[n] = a
            l = layouts_for(mp + [n], oi)
            if l is not None:
                offs = [l["offs"].get(fd["name"], NONE) for fd in oi.get("fields", [])] if a["k"] == "struct" else []
                real.append({"path": mp + [n], "size": l["size"], "align": l["align"], "offs": offs})
        files.append({"path": mp, "items": items})
    return {"id": case["id"], "kind": "layout", "input": case["input"], "accepted": bool(obs.get("accepted")),
            "reg": obs.get("reg", []) or [], "files": files, "real": real, "plain": bool(plain),
            "nonterm": [], "isNonterm": False, "isNameErr": False}


def graph_record(case, obs):
    nt = [n.split("::") for n in obs.get("nonterm", [])]
    return {"id": case["id"], "kind": "graph", "input": case["input"], "accepted": bool(obs.get("accepted")),
            "reg": [], "files": [], "real": [], "plain": False,
            "nonterm": nt, "isNonterm": obs.get("class") == "nonterm",
            "isNameErr": obs.get("class") in ("nonterm", "unresolved")}


def evaluate(records, outdir, timeout=1200):
    """returns {id: set(violated property ids)} as decided by TLC on the observed values"""
    if not records:
        return {}, {"records": 0}
    os.makedirs(outdir, exist_ok=True)
    path = os.path.join(outdir, "trace.ndjson")
    with open(path, "w") as f:
        for r in records:
            f.write(json.dumps(r) + "\n")
    cmd = ["timeout", str(timeout), "java", "-XX:+UseParallelGC", "-Xss1g", "-Xmx8g",
           "-Dtlc2.tool.queue.IStateQueue=StateDeque",
           "-cp", "/opt/veriftools/tla/tla2tools.jar:/opt/veriftools/tla/CommunityModules-deps.jar",
           "tlc2.TLC", "-workers", "1", "-metadir", os.path.join(outdir, "meta"), "-cleanup", "-noGenerateSpecTE",
           "-config", os.path.join(SPEC, "PyxisTrace.cfg"), os.path.join(SPEC, "PyxisTrace.tla")]
    t = time.time()
    p = subprocess.run(cmd, stdout=subprocess.PIPE, stderr=subprocess.STDOUT, text=True, cwd=outdir,
                       env=dict(os.environ, TRACE=path))
    verdicts = {}
    kfs = set()
    prefix = '<<"VERDICT", "'
    for line in p.stdout.splitlines():
        if line.startswith(prefix):
            v = json.loads(unescape_tla(line[len(prefix):-3]))
            verdicts[v["id"]] = set(v["viol"])
            if v.get("kf"):
                kfs.add(v["id"])
    if p.returncode != 0 or len(verdicts) != len(records):
        raise ToolError(f"trace validation failed (exit {p.returncode}, {len(verdicts)}/{len(records)} verdicts):\n"
                        + "\n".join(l for l in p.stdout.splitlines() if not l.startswith(prefix))[-3000:])
    return verdicts, {"records": len(records), "wall_s": round(time.time() - t, 1), "kf_ids": kfs}


# ---------------------------------------------------------------------------------------------
# step-level trace validation of the resolution loop (LoopTrace.tla)

def loop_events(case, obs):
    """the hook's event log of one run -> the records LoopTrace.tla consumes"""
    out = [{"e": "input", "input": case["input"]}]
    for mi, ok in obs.get("adds", []):
        out.append({"e": "add_module", "mi": mi, "ok": bool(ok)})
    if obs.get("stage") in ("add", "parse"):
        return out
    evs = [e for e in obs.get("events", [])]
    # drop the insertions of add_module (before the first pass)
    first = next((i for i, e in enumerate(evs) if e["e"] == "pass_begin"), len(evs))
    evs = evs[first:]
    i = 0
    while i < len(evs):
        e = evs[i]
        if e["e"] == "pass_begin":
            out.append({"e": "pass_begin", "todo": e["todo"]})
            i += 1
        elif e["e"] == "pass_end":
            out.append({"e": "pass_end"})
            i += 1
        elif e["e"] == "attempt_begin":
            ins = []
            j = i + 1
            while j < len(evs) and evs[j]["e"] == "item_added":
                ins.append(evs[j]["p"])
                j += 1
            if j < len(evs) and evs[j]["e"] == "attempt_end" and evs[j]["p"] == e["p"]:
                out.append({"e": "attempt", "p": e["p"], "r": "resolved" if evs[j]["resolved"] else "defer", "ins": ins})
                i = j + 1
            elif j >= len(evs):
                out.append({"e": "attempt", "p": e["p"], "r": "fail", "ins": ins})
                i = j
            else:
                out.append({"e": "attempt", "p": e["p"], "r": "skip", "ins": ins})
                i = j
        else:
            i += 1
    out.append({"e": "build_end", "ok": bool(obs.get("accepted")), "class": obs.get("class") or ""})
    if obs.get("accepted"):
        for ent in obs.get("reg", []):
            if ent["st"] == "R":
                out.append({"e": "item", "p": ent["path"], "size": ent["res"]["size"], "align": ent["res"]["align"]})
    return out


def validate_loop(runs, outdir, timeout=1200):
    """runs: list of (case, obs).  Returns (accepted: bool, n_events, detail)"""
    os.makedirs(outdir, exist_ok=True)
    path = os.path.join(outdir, "loop.ndjson")
    n = 0
    index = []
    with open(path, "w") as f:
        for case, obs in runs:
            for ev in loop_events(case, obs):
                f.write(json.dumps(ev) + "\n")
                n += 1
                index.append(case["id"])
    cmd = ["timeout", str(timeout), "java", "-XX:+UseParallelGC", "-Xss1g", "-Xmx8g",
           "-Dtlc2.tool.queue.IStateQueue=StateDeque",
           "-cp", "/opt/veriftools/tla/tla2tools.jar:/opt/veriftools/tla/CommunityModules-deps.jar",
           "tlc2.TLC", "-workers", "1", "-metadir", os.path.join(outdir, "meta"), "-cleanup", "-noGenerateSpecTE",
           "-config", os.path.join(SPEC, "LoopTrace.cfg"), os.path.join(SPEC, "LoopTrace.tla")]
    t = time.time()
    p = subprocess.run(cmd, stdout=subprocess.PIPE, stderr=subprocess.STDOUT, text=True, cwd=outdir, env=dict(os.environ, TRACE=path))
    m = re.search(r'<<"TRACE-REJECTED-AT", (\d+), "([^"]*)">>', p.stdout)
    info = {"events": n, "runs": len(runs), "wall_s": round(time.time() - t, 1)}
    if m:
        at = int(m.group(1))
        info.update({"rejected_at": at, "event": m.group(2), "case": index[at - 1] if at - 1 < len(index) else None})
        with open(path) as f:
            for k, line in enumerate(f, 1):
                if k == at:
                    info["record"] = json.loads(line)
        return False, info
    if p.returncode != 0:
        raise ToolError("LoopTrace failed:\n" + "\n".join(l for l in p.stdout.splitlines() if "Parsing" not in l and "Semantic" not in l)[-3000:])
    return True, info
