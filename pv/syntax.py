"""C18: parsing is the inverse of printing (MC_Syntax generator + harness printer/comparer)."""
import json, os, subprocess
from .common import *
from . import tlc, parse
from .result import Result


def run_syntax(pid, tier):
    res = Result(pid, tier)
    build_harness()
    d = fresh_dir("run", f"syntax-{tier}")
    st = tlc.run_tlc("MC_Syntax", "MC_Syntax_q1.cfg", d, workers=4, timeout=900)
    if st["violation"]:
        raise ToolError("MC_Syntax: " + st["violation"]["text"][:2000])
    cases = os.path.join(d, "REPLAY.ndjson")
    obs = os.path.join(d, "syntax.ndjson")
    k = 4 if tier == "quick" else 40
    p = subprocess.run([PVH, "syntax", "--in", cases, "--out", obs, "--n", str(k), "--seed", str(seed())],
                       stdout=subprocess.PIPE, stderr=subprocess.STDOUT, text=True)
    if p.returncode != 0:
        raise ToolError("pvh syntax failed: " + p.stdout[-2000:])
    n_mod = n_print = 0
    for case, o in zip(tlc.read_ndjson(cases), tlc.read_ndjson(obs)):
        n_mod += 1
        n_print += o["prints"]
        for m in o["mismatch"]:
            what = ("a printed module is rejected by the parser: " + m.get("error", "") + " at " + m.get("at", "")) if m["kind"] == "rejected" \
                else f"a printed module parses to a different abstract module: got …{m['got']}… expected …{m['expected']}…"
            res.violation(what[:400], {"gmod": case["gmod"], "text": m["text"], "detail": {k2: v for k2, v in m.items() if k2 != "text"}})
        for m in o["illformed_accepted"]:
            res.violation(f"ill-formed text ({m['variant']}) is accepted", {"text": m["text"]})
        for m in o["bad_position"]:
            res.violation(f"the error for ill-formed text ({m['variant']}) carries no position inside the text", {"detail": m})
        for m in o["panic"]:
            res.violation("the parser panics", {"text": m.get("text")})
        if len(res.samples) < 3 and n_mod % 301 == 0:
            res.sample({"gmod_defs": case["gmod"]["defs"][0]["stmts"][:2], "prints": o["prints"]})
    # the language specification: every single-token mutation of the base modules, decided by TLC
    pst, pcnt, problems = parse.conformance(tier, "c18")
    for kind, case, pr in problems:
        res.violation(parse.KINDS[kind] + ": " + json.dumps(pr["detail"])[:300], parse.payload(case, pr))
    res.coverage = {"states": st["distinct"] + pst["distinct"], "transitions": st["generated"] + pst["generated"], "traces_validated_against_impl": n_print + pcnt["prints"],
                    "language_spec": {"module": "Parse.tla / MC_Parse.tla / MC_ParseGen.tla", "cfg": pst["cfg"], "tlc_wall_s": pst["wall_s"], **pcnt,
                                      "invariants": "RoundTrip (ParseToks(print(b)) = b for every base), Decides (total verdict)",
                                      "rule": "(a) every deletion, neighbour swap, replacement by and insertion of each alphabet token at every position of "
                                              "every base module (MC_Parse); (b) every viable prefix of the language from the empty text up to the bound, "
                                              "closed, and every token that ends viability (MC_ParseGen); verdict of the specification (abstract module / "
                                              "offending token) compared with parser::parse_str on the printed text (line and column of the error)"},
                    "tlc": {k2: st[k2] for k2 in ("module", "cfg", "behaviours", "wall_s")}, "checker_cmd": st["cmd"],
                    "evaluations": n_print, "distinct_nontrivial": n_mod, "exhaustive": False,
                    "rule": "abstract modules over the full grammar enumerated by TLC from rotating pools (attribute shapes, types nested to depth 5, "
                            "functions, statements, backend forms, raw identifiers), each printed with randomised trivia, literal spellings, attribute "
                            "grouping, doc-comment form and item interleaving, parsed by parser::parse_str and compared (PartialEq) with the "
                            "abstract module; five ill-formed variants per module must be rejected with a position"}
    res.assumptions = ["the specification is generator and reference printer; no claim about texts the printer cannot produce"]
    return res.finish()
