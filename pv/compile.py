"""C13: the emitted files form a crate that type-checks.  Every accepted behaviour of the other
groups that lies inside the documented fragment is assembled (modules mirroring the input tree,
extern types supplied, conventions normalised on 64-bit) and handed to the compilers."""
import json, os
from .common import *
from .layout import Pipeline, payload
from .result import Result
from . import layout, vft, inherit, impl, enums, scope

GROUPS = {
    "quick": [("MC_Inherit", inherit.CFG, "inherit"), ("MC_Impl", impl.CFG, "impl"), ("MC_Vft", vft.CFG, "vft"),
              ("MC_Enum", enums.CFG, "enum"), ("MC_Scope", {"quick": ["MC_Scope_q2.cfg"]}, "scope"),
              ("MC_Layout", {"quick": ["MC_Layout_q2.cfg", "MC_Layout_q5.cfg"]}, "layout"),
              ("MC_Names", {"quick": ["MC_Names_q1.cfg"]}, "names"),
              # the text-level family: every accepted single-token mutation of the base texts, fed to pyxis as text
              ("MC_Pipe", {"quick": ["MC_Pipe_q1.cfg"]}, "pipe")],
    "thorough": [("MC_Inherit", inherit.CFG, "inherit"), ("MC_Impl", impl.CFG, "impl"), ("MC_Vft", vft.CFG, "vft"),
                 ("MC_Enum", enums.CFG, "enum"), ("MC_Scope", scope.CFG, "scope"),
                 ("MC_Layout", {"thorough": layout.CFG["thorough"] + ["MC_Layout_q5.cfg"]}, "layout"),
                 ("MC_Names", {"quick": ["MC_Names_q1.cfg"]}, "names"),
                 ("MC_Pipe", {"quick": ["MC_Pipe_q1.cfg"]}, "pipe")],
}


def in_fragment(case):
    """the documented fragment of C13"""
    import re
    for m in case["input"]["mods"]:
        # a module whose name is no Rust identifier (`c.v1`) cannot be declared by a `mod` item mirroring the tree
        if any(not re.fullmatch(r"(r#)?[A-Za-z_][A-Za-z0-9_]*", seg) for seg in m["path"]):
            return False
    # two modules whose paths differ only by a raw-identifier prefix (`m`, `r#m`) cannot both be declared in one crate:
    # the tree has no mirror to type-check
    plain_paths = [tuple(seg[2:] if seg.startswith("r#") else seg for seg in m["path"]) for m in case["input"]["mods"]]
    if len(set(plain_paths)) != len(plain_paths):
        return False
    for m in case["input"]["mods"]:
        for d in m["defs"]:
            # a singleton at address 0 is a null dereference (rustc's deref_nullptr lint refuses it)
            if d.get("singleton") == 0:
                return False
            if d["k"] == "enum":
                # two cases with one discriminant are outside Rust's enums (explicit values; the implicit ones count up)
                vals, cur = [], None
                for v in d["vars"]:
                    x = conform_num(v["val"])
                    cur = x if x is not None else (0 if cur is None else cur + 1)
                    vals.append(cur)
                if len(set(vals)) != len(vals):
                    return False
    for m in case["input"]["mods"]:
        for d in m["defs"]:
            if d["k"] != "type":
                continue
            # a virtual function without receiver has no callable wrapper
            for f in d["vft"]["funcs"]:
                if not any(a["k"] in ("cself", "mself") for a in f["args"]):
                    return False
            if d["packed"] and any(f["base"] for f in d["fields"]):
                return False
            # by-value `void` (c_void is not a zero-sized type)
            for f in d["fields"]:
                t = f["ty"]
                while t.get("k") == "arr":
                    t = t["t"]
                if t.get("k") == "nm" and t.get("n") == "void":
                    return False
    return True


def conform_num(v):
    """a symbolic integer of the specification as a Python int (None when no value is written)"""
    from .conform import num
    if isinstance(v, dict) and v.get("a") == "none":
        return None
    n = num(v)
    return n if isinstance(n, int) else None


BUILTIN = {"void", "bool", "u8", "u16", "u32", "u64", "u128", "i8", "i16", "i32", "i64", "i128", "f32", "f64"}


def packed_embeds_struct(case):
    """known finding K05: every emitted struct carries repr(align(N)), and rustc refuses a packed struct that
    contains one (E0588); the class is a packed type with a by-value field of a non-built-in type"""
    for m in case["input"]["mods"]:
        for d in m["defs"]:
            if d["k"] == "type" and d["packed"]:
                for f in d["fields"]:
                    t = f["ty"]
                    while t.get("k") == "arr":
                        t = t["t"]
                    if t.get("k") == "nm" and t["n"] not in BUILTIN:
                        return True
    return False


def type_named_like_module(case):
    """known finding K06: a type whose path is also the path of a module (type `n` in a.pyxis next to a/n.pyxis) is accepted,
    but the crate then declares `mod n` and `struct n` side by side in one namespace (E0428)"""
    mods = {tuple(m["path"]) for m in case["input"]["mods"]}
    for m in case["input"]["mods"]:
        for d in m["defs"]:
            if tuple(m["path"] + [d["name"]]) in mods:
                return True
    return False


def type_named_like_builtin(case):
    """known finding K07: a built-in name is emitted unqualified (`u8`); in a module that itself defines a type of that name
    rustc binds it to the module's own struct instead of the primitive"""
    return any(d["name"] in BUILTIN for m in case["input"]["mods"] for d in m["defs"])


def run_c13(tier):
    res = Result("C13", tier)
    cov = {"states": 0, "transitions": 0, "traces_validated_against_impl": 0, "tlc": [], "checker_cmd": ""}
    n_acc = n_frag = 0
    per_group = {}
    for module, cfgs, name in GROUPS[tier]:
        t = tier if tier in cfgs else "quick"
        pl = Pipeline(t, module=module, cfgs=cfgs, name="c13-" + name)
        pl.compile()
        bc = pl.base_coverage()
        for k in ("states", "transitions", "traces_validated_against_impl"):
            cov[k] += bc[k]
        cov["tlc"].append(bc["tlc"])
        cov["checker_cmd"] += bc["checker_cmd"] + " ; "
        acc = bad = 0
        for case, obs in pl.pairs():
            if not obs["accepted"]:
                continue
            n_acc += 1
            if not in_fragment(case):
                continue
            n_frag += 1
            acc += 1
            problems = []
            for f in obs.get("files", []):
                if "proj_err" in f:
                    problems.append(f"{f['rel']} is not syntactically valid Rust: {f['proj_err']}")
            # the crate declares one module per input module, mirroring the input tree: a module without a file is E0583
            have = {f["rel"] for f in obs.get("files", [])}
            for m in case["input"]["mods"]:
                if m["path"] and "/".join(m["path"]) + ".rs" not in have:
                    problems.append(f"no output file for module {'::'.join(m['path'])}: `mod {m['path'][-1]};` in the crate that mirrors "
                                    f"the input tree has nothing to load (E0583)")
            for tgt in pl.targets_for(case["input"]["ptr"]):
                msg = pl.cfail[tgt].get(case["id"])
                if msg:
                    problems.append(f"{tgt} rustc rejects the assembled crate: {msg.strip()}")
            if problems:
                bad += 1
                kf = [k for k in case["oracle"].get("kf", []) if k.startswith("C13:")]
                if not kf and packed_embeds_struct(case) and all("E0588" in p_ for p_ in problems):
                    kf = ["C13:packed-embeds-struct"]
                if not kf and type_named_like_builtin(case) and all(("E0072" in p_ or "E0308" in p_ or "E0512" in p_) for p_ in problems):
                    kf = ["C13:type-named-like-builtin"]
                if not kf and type_named_like_module(case) and all("E0428" in p_ for p_ in problems):
                    kf = ["C13:type-named-like-module"]
                res.violation("; ".join(problems[:2]), payload(case, obs), kf[0] if kf else None)
            elif acc % 499 == 0:
                res.sample({"group": name, "modules": [(m["path"], [d["name"] for d in m["defs"]]) for m in case["input"]["mods"]],
                            "ptr": case["input"]["ptr"], "compiled_for": pl.targets_for(case["input"]["ptr"])})
        per_group[name] = {"accepted_in_fragment": acc, "rejected_by_rustc": bad,
                           "types_compiled": {t: len(v) for t, v in pl.layouts.items()}}
    cov.update({"evaluations": n_frag, "distinct_nontrivial": n_frag, "accepted_by_code": n_acc, "per_group": per_group,
                "exhaustive": True,
                "rule": "every accepted behaviour TLC enumerates for the inheritance, impl, vftable, enum, scope and layout groups that lies "
                        "in the documented fragment is assembled into a crate and compiled: host stable rustc (width 8, full items, "
                        "transmute size checks included), nightly no_core for x86_64- and i686-pc-windows-msvc (struct/enum definitions)"})
    res.coverage = cov
    res.assumptions = ["the deciding oracle is rustc; the specification enumerates the inputs and delimits the fragment",
                       "calling-convention strings are normalised to \"C\" on 64-bit targets; i686 keeps the real ones",
                       "outside the fragment: receiver-less virtual functions, packed types with a base, by-value void, duplicate discriminants, module names that are no Rust identifiers (dotted file or directory names)"]
    return res.finish()
