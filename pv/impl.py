"""C05 (address-bound wrappers) and C15 (singleton / extern-value accessors), static side, on MC_Impl."""
import json, os
from .common import *
from . import conform
from .layout import Pipeline, payload, proj_item
from .result import Result

CFG = {"quick": ["MC_Impl_q1.cfg"], "thorough": ["MC_Impl_t1.cfg"]}
SELF = {"k": "self"}


def check_wrapper(fo, meths):
    """fo: oracle for one declared function; meths: emitted methods of the type. returns problems"""
    hits = [m for m in meths if m["name"] == fo["name"]]
    if len(hits) != 1:
        return [f"`{fo['name']}` has {len(hits)} emitted wrappers"]
    m = hits[0]
    b = m["body"]
    if b.get("k") == "unknown":
        return None      # not judged
    if b.get("k") != "addr":
        return [f"`{fo['name']}` is not bound to an address (body {b.get('k')} -> {b.get('f')}.{b.get('fn')})"]
    p = []
    if b["a"] != fo["addr"]:
        p.append(f"`{fo['name']}` calls 0x{b['a']:X}, declared 0x{fo['addr']:X}")
    want_args = [{"k": a["k"], "name": a["name"], "ty": conform._ty_norm(a["ty"])} for a in fo["args"]]
    got_args = [{"k": a["k"], "name": a["name"], "ty": conform._ty_norm(a["ty"])} for a in m["args"]]
    if want_args != got_args:
        p.append(f"`{fo['name']}` takes {[(a['k'], a['name']) for a in got_args]}, declared {[(a['k'], a['name']) for a in want_args]}")
    if conform._ty_norm(m["ret"]) != conform._ty_norm(fo["ret"]):
        p.append(f"`{fo['name']}` returns {m['ret']}, declared {fo['ret']}")
    ft = b.get("fnty", {})
    want_fn = []
    for a in fo["args"]:
        if a["k"] == "cself":
            want_fn.append(("this", {"k": "cptr", "t": SELF}))
        elif a["k"] == "mself":
            want_fn.append(("this", {"k": "mptr", "t": SELF}))
        else:
            want_fn.append((a["name"], conform._ty_norm(a["ty"])))
    got_fn = [(a["name"], conform._ty_norm(a["ty"])) for a in ft.get("args", [])]
    if [t for _, t in want_fn] != [t for _, t in got_fn]:
        p.append(f"`{fo['name']}` calls through fn({[t for _, t in got_fn]}), declared parameters {[t for _, t in want_fn]}")
    if conform._ty_norm(ft.get("ret")) != conform._ty_norm(fo["ret"]):
        p.append(f"`{fo['name']}` calls through a pointer returning {ft.get('ret')}, declared {fo['ret']}")
    if ft.get("cc") != fo["cc"]:
        p.append(f"`{fo['name']}` calls through extern \"{ft.get('cc')}\", expected {fo['cc']}")
    want_call = [a["k"] if a["k"] != "named" else a["name"] for a in fo["args"]]
    got_call = [a["k"] if a["k"] != "named" else a.get("name") for a in b.get("callargs", [])]
    if want_call != got_call:
        p.append(f"`{fo['name']}` passes {got_call}, declared order {want_call}")
    return p


def run_impl(pid, tier):
    res = Result(pid, tier)
    pl = Pipeline(tier, module="MC_Impl", cfgs=CFG, name="impl")
    pl.compile()
    cov = pl.base_coverage()
    n_checked = n_model = n_acc = 0
    for case, obs in pl.pairs():
        cid, ptr, oracle = case["id"], case["input"]["ptr"], case["oracle"]
        if pid in case.get("pviol", []):
            n_model += 1
        d = []
        if obs["accepted"] != case["accepted"]:
            d.append(f"verdict: code {obs['outcome']} vs mirror {'ok' if case['accepted'] else 'err:' + case['err']}")
        elif obs["accepted"]:
            d += conform.reg_drift(case["mirror"]["reg"], obs.get("reg"))
            d += conform.files_drift(case["mirror"]["out"], obs.get("files"))
        res.add_drift(d, cid)
        n_checked += 1
        bad = oracle["fnBad"] if pid == "C05" else oracle["evalBad"]
        if bad:
            if obs["accepted"]:
                res.violation("a function without address / with an unresolvable parameter or return type is accepted" if pid == "C05"
                              else "an extern value without address / of an unresolvable type is accepted", payload(case, obs))
            continue
        if not obs["accepted"]:
            continue
        n_acc += 1
        t = proj_item(obs, ["m", "T"])
        problems = []
        if t is None:
            res.violation("accepted but struct T is not emitted", payload(case, obs))
            continue
        if pid == "C05":
            for fo in oracle["funcs"]:
                p = check_wrapper(fo, t.get("methods", []))
                if p is None:
                    res.notes.append(f"case {cid}: wrapper `{fo['name']}` has an unrecognised shape (not judged)")
                else:
                    problems += p
            for tgt in pl.targets_for(ptr):
                if tgt == "host" and cid in pl.cfail[tgt]:
                    problems.append(f"the emitted wrappers do not compile: {pl.cfail[tgt][cid]}")
        else:
            e = proj_item(obs, ["m", "E"])
            # body parameters (address, casts, dereferences) are read off the text only when the body has exactly
            # the emitted template; any other shape is decided by the execution rig, never by reading it
            t_unknown = oracle["tsingle"] != NONE and t.get("singleton_kind") and t.get("singleton_shape") != "template"
            e_unknown = oracle["esingle"] != NONE and (e or {}).get("singleton_kind") and (e or {}).get("singleton_shape") != "template"
            if t_unknown:
                res.notes.append(f"case {cid}: T::get() has an unrecognised body (not judged statically)")
                if t.get("singleton_vis") != "pub":
                    problems.append("T::get() is not public although T is")
            elif t.get("singleton") != oracle["tsingle"]:
                problems.append(f"T::get() addresses {t.get('singleton')}, declared {oracle['tsingle']}")
            elif oracle["tsingle"] != NONE:
                want_cast = {"k": "mptr", "t": {"k": "mptr", "t": SELF}}
                if t.get("singleton_cast") != want_cast or t.get("singleton_derefs") != 1 or not t.get("singleton_as_mut") \
                        or "Option<&'staticmutSelf>" not in t.get("singleton_kind", ""):
                    problems.append(f"T::get() does not read a pointer at the address and return the pointee "
                                    f"(cast {t.get('singleton_cast')}, derefs {t.get('singleton_derefs')}, returns {t.get('singleton_kind')})")
                if t.get("singleton_vis") != "pub":
                    problems.append("T::get() is not public although T is")
            if e_unknown:
                res.notes.append(f"case {cid}: E::get() has an unrecognised body (not judged statically)")
            elif (e or {}).get("singleton") != oracle["esingle"]:
                problems.append(f"E::get() addresses {(e or {}).get('singleton')}, declared {oracle['esingle']}")
            elif oracle["esingle"] != NONE:
                # `*(A as *const Self)` (one dereference) or `ptr::read(A as *const Self)` (none written)
                if e.get("singleton_cast") != {"k": "cptr", "t": SELF} or e.get("singleton_derefs") not in (0, 1) or e.get("singleton_kind") != "Self":
                    problems.append(f"E::get() does not return the value stored at the address (cast {e.get('singleton_cast')}, "
                                    f"derefs {e.get('singleton_derefs')}, returns {e.get('singleton_kind')})")
            if oracle.get("osingle", NONE) != NONE:
                eng = proj_item(obs, ["m", "Eng"]) or {}
                if eng.get("singleton_kind") and eng.get("singleton_shape") != "template":
                    res.notes.append(f"case {cid}: Eng::get() has an unrecognised body (not judged statically)")
                elif eng.get("singleton") != oracle["osingle"]:
                    problems.append(f"Eng::get() addresses {eng.get('singleton')}, declared {oracle['osingle']}")
            files = {tuple(f["rel"][:-3].split("/")): f.get("proj") for f in obs.get("files", [])}
            evs = (files.get(("m",)) or {}).get("evals", [])
            if len(evs) != len(oracle["evals"]):
                problems.append(f"{len(evs)} extern-value accessors emitted, {len(oracle['evals'])} declared")
            for want in oracle["evals"]:
                got = next((x for x in evs if x["name"] == want["name"]), None)
                if got is None:
                    problems.append(f"no accessor get_{want['name']}")
                    continue
                wt = conform._ty_norm(want["ty"])
                known = got.get("shape") == "template"
                if not known:
                    res.notes.append(f"case {cid}: get_{want['name']}() has an unrecognised body (not judged statically)")
                if known and got["addr"] != want["addr"]:
                    problems.append(f"get_{want['name']}() addresses {got['addr']}, declared {want['addr']}")
                if got["ret"].get("k") != "mref" or got["ret"].get("life") != "static" or conform._ty_norm(got["ret"].get("t")) != wt:
                    problems.append(f"get_{want['name']}() returns {got['ret']}, declared &'static mut {wt}")
                if known and (got.get("cast") != {"k": "mptr", "t": wt} or got.get("derefs") != 1):
                    problems.append(f"get_{want['name']}() does not return a reference to the address itself "
                                    f"(cast {got.get('cast')}, derefs {got.get('derefs')})")
                if got["vis"] != want["vis"]:
                    problems.append(f"get_{want['name']}() visibility {got['vis']}, declared {want['vis']}")
            if oracle.get("gevals"):
                gev = (files.get(("g",)) or {}).get("evals")
                if gev is None:
                    problems.append("module g (extern values only) has no output file: its accessors are missing")
                else:
                    for want in oracle["gevals"]:
                        got = next((x for x in gev if x["name"] == want["name"]), None)
                        if got is None or (got.get("shape") == "template" and got["addr"] != want["addr"]) \
                                or conform._ty_norm(got["ret"].get("t")) != conform._ty_norm(want["ty"]):
                            problems.append(f"g::get_{want['name']}() is {got}, declared {want}")
            if ptr == 8 and cid in pl.cfail["host"]:
                problems.append(f"the emitted accessors do not compile: {pl.cfail['host'][cid]}")
        if problems:
            res.violation("; ".join(problems[:3]), payload(case, obs))
        if cid % 397 == 0:
            res.sample({"impl": case["input"]["mods"][-1]["impls"], "evals": case["input"]["mods"][-1]["evals"],
                        "oracle": {k: oracle[k] for k in ("funcs", "evals", "tsingle", "esingle")}})
    from . import execrig, execplan
    execrig.apply(pl, res, lambda c: execplan.plan_impl(c, pid), payload, cov)
    cov.update({"evaluations": n_checked, "distinct_nontrivial": n_checked, "accepted_by_code": n_acc,
                "rule": "every impl block / accessor declaration enumerated by TLC for MC_Impl replayed into pyxis; address literal, "
                        "fn-pointer type, argument order, return type and accessor shape read from the emitted code with syn; the host "
                        "compiler type-checks every accepted case",
                "model_level_violations": n_model,
                "rustc_rejected_cases": {t: len(v) for t, v in pl.cfail.items()}})
    res.coverage = cov
    res.assumptions = ["static reading of the wrapper; run-time execution against recording stubs is the exec rig's part",
                       "wrapper bodies of unrecognised shape are never judged"]
    return res.finish()
