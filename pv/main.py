"""Entry point: bin/check <property id> --tier quick|thorough | --setup | <id> --replay <file>"""
import sys, os, json, traceback
from .common import *


def setup():
    s = build_harness()
    log(f"harness built in {s:.1f}s")
    # parse every specification module
    for f in sorted(os.listdir(SPEC)):
        if f.startswith("MC_") and f.endswith(".tla") or f in ("PyxisTrace.tla",):
            p = run(["java", "-cp", "/opt/veriftools/tla/tla2tools.jar:/opt/veriftools/tla/CommunityModules-deps.jar",
                     "tla2sany.SANY", os.path.join(SPEC, f)], timeout=120, cwd=SPEC)
            if p.returncode != 0 or "Semantic errors" in p.stdout or "Fatal" in p.stdout or "Could not" in p.stdout:
                log(p.stdout[-2000:])
                raise ToolError("SANY rejects " + f)
            log("sany ok: " + f)
    return 0


def dispatch(pid, tier):
    from . import layout, graph, vft, inherit, enums, impl, scope
    table = {
        "C04": lambda: vft.run_c04(tier),
        "C16": lambda: vft.run_c16(tier),
        "C05": lambda: impl.run_impl("C05", tier),
        "C11": lambda: scope.run_scope("C11", tier),
        "C17": lambda: __import__("pv.attrs", fromlist=["run_attrs"]).run_attrs("C17", tier),
        "C19": lambda: scope.run_scope("C19", tier),
        "C12": lambda: __import__("pv.bounds", fromlist=["run_bounds"]).run_bounds("C12", tier),
        "C13": lambda: __import__("pv.compile", fromlist=["run_c13"]).run_c13(tier),
        "C14": lambda: __import__("pv.files", fromlist=["run_files"]).run_files("C14", tier),
        "C15": lambda: impl.run_impl("C15", tier),
        "C06": lambda: inherit.run_inherit("C06", tier),
        "C07": lambda: inherit.run_inherit("C07", tier),
        "C08": lambda: enums.run_enum("C08", tier),
        "C09": lambda: graph.run_graph("C09", tier),
        "C10": lambda: graph.run_graph("C10", tier),
        "C01": lambda: layout.run_layout("C01", tier),
        "C02": lambda: layout.run_layout("C02", tier),
        "C03": lambda: layout.run_layout("C03", tier),
    }
    table["C18"] = lambda: __import__("pv.syntax", fromlist=["run_syntax"]).run_syntax("C18", tier)
    table["C20"] = lambda: __import__("pv.rewrite", fromlist=["run_rewrite"]).run_rewrite("C20", tier)
    if pid not in table:
        raise ToolError(f"no check registered for {pid}")
    return table[pid]()


def main(argv):
    if "--setup" in argv:
        return setup()
    if not argv:
        log(__doc__)
        return EXIT_TOOL
    pid = argv[0]
    tier = os.environ.get("VERIF_TIER", "quick")
    if "--tier" in argv:
        tier = argv[argv.index("--tier") + 1]
    if "--replay" in argv:
        from . import replay
        return replay.replay(pid, argv[argv.index("--replay") + 1])
    return dispatch(pid, tier)


if __name__ == "__main__":
    try:
        sys.exit(main(sys.argv[1:]))
    except ToolError as e:
        log("TOOL ERROR: " + str(e))
        sys.exit(EXIT_TOOL)
    except Exception:
        traceback.print_exc()
        sys.exit(EXIT_TOOL)
