"""Running TLC and turning its output into replayable behaviours."""
import json, os, re, time
from .common import *

_STATS = re.compile(r"^(\d+) states generated, (\d+) distinct states found, (\d+) states left on queue")
_DEPTH = re.compile(r"depth of the complete state graph search is (\d+)")


def unescape_tla(s):
    # TLC prints a string value with \" and \\ escapes
    out, i, n = [], 0, len(s)
    while i < n:
        c = s[i]
        if c == "\\" and i + 1 < n:
            out.append(s[i + 1]); i += 2
        else:
            out.append(c); i += 1
    return "".join(out)


def run_tlc(module, cfg, outdir, workers=8, timeout=1500, simulate=None, tag="REPLAY", extra_java=None,
            extra_args=None, env=None):
    """Run TLC on spec/<module>.tla with spec/<cfg>.  Lines PrintT(<<tag, json>>) are written
    to <outdir>/<tag>.ndjson (one JSON object per line, numbered with "id").
    Returns a dict of statistics.  Raises ToolError on anything but a clean run or an
    invariant violation (reported in stats['violation'])."""
    os.makedirs(outdir, exist_ok=True)
    meta = os.path.join(outdir, "meta")
    log_path = os.path.join(outdir, "tlc.log")
    cmd = ["timeout", str(timeout), "java", "-XX:+UseParallelGC", "-Xss256m"]
    if extra_java:
        cmd += extra_java
    cmd += ["-cp", "/opt/veriftools/tla/tla2tools.jar:/opt/veriftools/tla/CommunityModules-deps.jar",
            "tlc2.TLC", "-workers", str(workers), "-metadir", meta, "-cleanup", "-noGenerateSpecTE",
            "-config", os.path.join(SPEC, cfg)]
    if simulate:
        cmd += ["-simulate", simulate]
    if extra_args:
        cmd += extra_args
    cmd += [os.path.join(SPEC, module + ".tla")]
    t = time.time()
    nd_path = os.path.join(outdir, tag + ".ndjson")
    stats = {"module": module, "cfg": cfg, "generated": 0, "distinct": 0, "depth": 0, "behaviours": 0,
             "violation": None, "cmd": " ".join(cmd[2:])}
    import subprocess
    e = dict(os.environ)
    if env:
        e.update(env)
    prefix = '<<"%s", "' % tag
    errlines = []
    with open(log_path, "w") as lg, open(nd_path, "w") as nd:
        p = subprocess.Popen(cmd, stdout=subprocess.PIPE, stderr=subprocess.STDOUT, text=True, cwd=outdir, env=e)
        n = 0
        in_err = False
        for line in p.stdout:
            if line.startswith(prefix):
                body = line.rstrip("\n")
                body = body[len(prefix):-3] if body.endswith('">>') else body[len(prefix):]
                n += 1
                nd.write('{"id":%d,' % n + unescape_tla(body)[1:] + "\n")
                continue
            lg.write(line)
            m = _STATS.match(line)
            if m:
                stats["generated"], stats["distinct"] = int(m.group(1)), int(m.group(2))
            m = _DEPTH.search(line)
            if m:
                stats["depth"] = int(m.group(1))
            if line.startswith("Error:"):
                in_err = True
            if in_err and len(errlines) < 60:
                errlines.append(line.rstrip("\n"))
        p.wait()
    stats["behaviours"] = n
    stats["wall_s"] = round(time.time() - t, 1)
    stats["exit"] = p.returncode
    if p.returncode == 124:
        raise ToolError(f"TLC timed out after {timeout}s on {module}/{cfg}")
    if p.returncode != 0:
        txt = "\n".join(errlines)
        if "Invariant" in txt and "is violated" in txt:
            m = re.search(r"Invariant (\S+) is violated", txt)
            stats["violation"] = {"invariant": m.group(1) if m else "?", "text": txt[:6000]}
        elif "Temporal properties were violated" in txt or "Deadlock reached" in txt:
            stats["violation"] = {"invariant": "temporal/deadlock", "text": txt[:6000]}
        else:
            raise ToolError(f"TLC failed ({p.returncode}) on {module}/{cfg}:\n{txt[:4000]}\n(see {log_path})")
    return stats


def read_ndjson(path):
    with open(path) as f:
        for line in f:
            line = line.strip()
            if line:
                yield json.loads(line)
