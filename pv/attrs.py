"""C17: visibility, derives, packing and documentation are carried over faithfully (MC_Attrs)."""
import json, os
from .common import *
from . import conform
from .layout import Pipeline, payload, proj_item
from .result import Result

CFG = {"quick": ["MC_Attrs_q1.cfg"], "thorough": ["MC_Attrs_q1.cfg"]}


def want_derives(d):
    return (["Copy"] if d["copyable"] else []) + (["Clone"] if d["copyable"] or d["cloneable"] else []) + \
           (["Default"] if d["defaultable"] else [])


def run_attrs(pid, tier):
    res = Result(pid, tier)
    pl = Pipeline(tier, module="MC_Attrs", cfgs=CFG, name="attrs")
    pl.compile()
    cov = pl.base_coverage()
    n_checked = n_model = 0
    seen = set()

    def strip_docs(inp):
        def walk(x):
            if isinstance(x, dict):
                return {k: ([] if k == "doc" else walk(v)) for k, v in x.items()}
            if isinstance(x, list):
                return [walk(v) for v in x]
            return x
        return sha(json.dumps(walk(inp), sort_keys=True))

    plain_ok = {sha(json.dumps(c["input"], sort_keys=True)) for c, o in pl.pairs() if o["accepted"]}
    for case, obs in pl.pairs():
        cid = case["id"]
        key = sha(json.dumps(case["input"], sort_keys=True))
        if pid in case.get("pviol", []):
            n_model += 1
        d = []
        if obs["accepted"] != case["accepted"]:
            d.append(f"verdict: code {obs['outcome']} vs mirror {'ok' if case['accepted'] else 'err:' + case['err']}")
        elif obs["accepted"]:
            d += conform.files_drift(case["mirror"]["out"], obs.get("files"))
        res.add_drift(d, cid)
        if key in seen:
            continue
        if not obs["accepted"]:
            # documentation is never a reason to reject: the same description without any doc comment builds
            if case["accepted"] and strip_docs(case["input"]) in plain_ok and strip_docs(case["input"]) != key:
                seen.add(key)
                res.violation(f"a description is rejected only because of its doc comments: {str(obs.get('msg'))[:160]}", payload(case, obs))
            continue
        seen.add(key)
        n_checked += 1
        m = case["input"]["mods"][0]
        defs = {x["name"]: x for x in m["defs"]}
        T, V, E = defs["T"], defs["V"], defs["E"]
        h, vf = m["impls"][0]["funcs"][0], V["vft"]["funcs"][0]
        it = {n: proj_item(obs, ["m", n]) for n in ("T", "V", "VVftable", "D", "DV", "E", "Bt", "Big")}
        files = {tuple(f["rel"][:-3].split("/")): f.get("proj") for f in obs.get("files", [])}
        fproj = files.get(("m",))
        p = []
        if any(v is None for v in it.values()) or fproj is None:
            res.violation(f"items missing from the output: {[n for n, v in it.items() if v is None]}", payload(case, obs))
            continue

        def fld(item, n):
            return next((f for f in item.get("fields", []) if f["name"] == n), {"vis": None, "doc": None})

        def meth(item, n):
            return next((x for x in item.get("methods", []) if x["name"] == n), None)

        def eq(what, got, want):
            if got != want:
                p.append(f"{what}: emitted {got}, declared {want}")

        eq("module doc", fproj["doc"], m["doc"])
        eq("T visibility", it["T"]["vis"], T["vis"]); eq("V visibility", it["V"]["vis"], V["vis"]); eq("E visibility", it["E"]["vis"], E["vis"])
        eq("field f visibility", fld(it["T"], "f")["vis"], T["fields"][0]["vis"])
        eq("field g visibility", fld(it["T"], "g")["vis"], "priv")
        for f in it["T"].get("fields", []):
            if f["name"] not in ("f", "g"):
                eq(f"padding field {f['name']} visibility", f["vis"], "priv")
                eq(f"padding field {f['name']} doc", f["doc"], [])
        eq("vftable pointer visibility", fld(it["V"], "vftable")["vis"], "priv")
        mh, mvf = meth(it["T"], "h"), meth(it["V"], "vf")
        eq("wrapper h visibility", mh and mh["vis"], h["vis"])
        eq("wrapper vf visibility", mvf and mvf["vis"], vf["vis"])
        eq("slot vf visibility", fld(it["VVftable"], "vf")["vis"], vf["vis"])
        eq("slot _raw visibility", fld(it["VVftable"], "_raw")["vis"], vf["vis"])
        eq("placeholder slot visibility", fld(it["VVftable"], "_vfunc_2")["vis"], "priv")
        ev = next((e for e in fproj["evals"] if e["name"] == "gv"), None)
        eq("accessor get_gv visibility", ev and ev["vis"], m["evals"][0]["vis"])
        eq("T::get() visibility", it["T"].get("singleton_vis"), T["vis"])
        if E["singleton"] != NONE:
            eq("E::get() visibility", it["E"].get("singleton_vis"), E["vis"])
        # the property speaks about Copy / Clone / Default; their order and any further derive carry no meaning
        marker = lambda ds: sorted(set(ds or []) & {"Copy", "Clone", "Default"})
        eq("T derives", marker(it["T"].get("derives")), sorted(want_derives(T)))
        eq("E derives", marker(it["E"].get("derives")), sorted(want_derives(E)))
        Big = next(d for d in m["defs"] if d["name"] == "Big")
        eq("Big derives (arrays of more than 32 elements)", marker(it["Big"].get("derives")), sorted(want_derives(Big)))
        # every emitted struct is laid out by the C rules, packed or not
        for sname in ("T", "V", "VVftable", "D", "DV", "Bt", "Big"):
            eq(f"{sname} repr(C)", bool(it[sname].get("repr", {}).get("c")), True)
        eq("T packed", bool(it["T"].get("repr", {}).get("packed")), T["packed"])
        if T["packed"]:
            eq("T align attribute on a packed type", it["T"].get("repr", {}).get("align"), NONE)
        eq("Bt packed (a byte-aligned type that is not declared packed)", bool(it["Bt"].get("repr", {}).get("packed")), False)
        eq("V derives", marker(it["V"].get("derives")), []); eq("VVftable derives", marker(it["VVftable"].get("derives")), [])
        eq("T doc", it["T"]["doc"], T["doc"]); eq("V doc", it["V"]["doc"], V["doc"]); eq("E doc", it["E"]["doc"], E["doc"])
        eq("field f doc", fld(it["T"], "f")["doc"], T["fields"][0]["doc"])
        eq("field g doc", fld(it["T"], "g")["doc"], [])
        eq("wrapper h doc", mh and mh["doc"], h["doc"])
        eq("wrapper vf doc", mvf and mvf["doc"], vf["doc"])
        eq("slot vf doc", fld(it["VVftable"], "vf")["doc"], vf["doc"])
        eq("placeholder slot doc", fld(it["VVftable"], "_vfunc_2")["doc"], [])
        eq("VVftable doc", it["VVftable"]["doc"], [])
        if h["vis"] == "pub":
            dh0 = meth(it["D"], "h")
            eq("inherited wrapper D::h visibility (a public function of the base stays public whatever the base field is)", dh0 and dh0["vis"], "pub")
        eq("base field D::t visibility", fld(it["D"], "t")["vis"], defs["D"]["fields"][0]["vis"])
        if h["vis"] == "pub":
            dh = meth(it["D"], "h")
            eq("inherited wrapper D::h doc", dh and dh["doc"], h["doc"])
        dvf = meth(it["DV"], "vf")
        if vf["vis"] == "pub" or dvf is not None:
            eq("inherited wrapper DV::vf doc", dvf and dvf["doc"], vf["doc"])
        eq("D doc", it["D"]["doc"], []); eq("DV doc", it["DV"]["doc"], [])
        # `Default` is not implemented for arrays of more than 32 elements: a defaultable `Big` cannot compile (documented limit,
        # outside C13's fragment); its derive list is judged above, the compile verdict of such a case is not
        if case["input"]["ptr"] == 8 and cid in pl.cfail["host"] and not Big["defaultable"]:
            p.append(f"does not compile: {pl.cfail['host'][cid]}")
        if p:
            res.violation("; ".join(p[:3]), payload(case, obs))
        if len(res.samples) < 5 and n_checked % 53 == 0:
            res.sample({"T": {k: T[k] for k in ("vis", "doc", "copyable", "cloneable", "defaultable", "packed")},
                        "emitted_T": {k: it["T"].get(k) for k in ("vis", "doc", "derives", "repr")}})
    cov.update({"evaluations": n_checked, "distinct_nontrivial": n_checked,
                "rule": "three sweeps enumerated by TLC for MC_Attrs (2^6 visibility combinations; 2^4 x 2^3 marker subsets; eight doc "
                        "line sequences incl. empty lines on each of eight item kinds incl. a user-written `_` gap; the module "
                        "carries a rust prologue holding an item) at both widths, replayed into pyxis; visibility, "
                        "derives, repr and doc attributes of every emitted item read with syn",
                "model_level_violations": n_model})
    res.coverage = cov
    res.assumptions = ["doc comments are rendered either as /// lines or as #[doc = \"..\"] attributes, randomly"]
    return res.finish()
