"""Host execution rig: the emitted wrappers and accessors are *run* on the 64-bit host.

Virtual calls go through a fake vftable whose entries are recording stubs; address-bound calls
through a page mapped at the absolute address holding a `movabs rax, stub; jmp rax` trampoline;
singleton accessors read a data page mapped at the declared address.  Each action's expectation
(which stub, which receiver address, which argument registers, which return value) comes from the
specification's oracle record, not from the emitted code.
"""
import json, os, re, subprocess
from concurrent.futures import ThreadPoolExecutor
from .common import *
from .rustobs import CC_RE, _ext_supply

NSTUBS = 48

PRELUDE = r"""#![allow(warnings)]
pub mod __rig {
    pub static mut LOG: Vec<(u64, [u64; 6])> = Vec::new();
    macro_rules! stubs { ($($n:literal $name:ident),*) => {
        $( pub extern "C" fn $name(a0: u64, a1: u64, a2: u64, a3: u64, a4: u64, a5: u64) -> u64 {
            unsafe { LOG.push(($n, [a0, a1, a2, a3, a4, a5])); }
            0xAB00_0000_0000_AB00u64 + $n
        } )*
        pub static STUBS: [extern "C" fn(u64, u64, u64, u64, u64, u64) -> u64; NSTUBS_PLACEHOLDER] = [$($name),*];
    } }
    stubs!(STUBLIST_PLACEHOLDER);
    extern "C" {
        fn mmap(addr: *mut u8, len: usize, prot: i32, flags: i32, fd: i32, off: i64) -> *mut u8;
        fn munmap(addr: *mut u8, len: usize) -> i32;
    }
    const PAGE: usize = 4096;
    /// map the page(s) holding [addr, addr+len); false if the range cannot be mapped at that address
    pub unsafe fn map(addr: usize, len: usize) -> bool {
        let lo = addr & !(PAGE - 1);
        let hi = (addr + len + PAGE - 1) & !(PAGE - 1);
        let p = mmap(lo as *mut u8, hi - lo, 7, 0x02 | 0x20 | 0x100000, -1, 0);
        p as usize == lo
    }
    pub unsafe fn unmap(addr: usize, len: usize) {
        let lo = addr & !(PAGE - 1);
        let hi = (addr + len + PAGE - 1) & !(PAGE - 1);
        munmap(lo as *mut u8, hi - lo);
    }
    /// plant `movabs rax, STUBS[k]; jmp rax` at addr
    pub unsafe fn trampoline(addr: usize, k: usize) -> bool {
        if !map(addr, 16) { return false; }
        let t = STUBS[k] as usize as u64;
        let p = addr as *mut u8;
        *p = 0x48; *p.add(1) = 0xB8;
        for i in 0..8 { *p.add(2 + i) = (t >> (8 * i)) as u8; }
        *p.add(10) = 0xFF; *p.add(11) = 0xE0;
        true
    }
    pub fn begin(case: i64, action: usize) {
        unsafe { LOG.clear(); }
        println!("BEGIN {} {}", case, action);
    }
    pub fn end(case: i64, action: usize, obj: usize, ret: u64, extra: &str) {
        let log: Vec<String> = unsafe { LOG.iter().map(|(k, a)| format!("[{},[{},{},{},{},{},{}]]", k, a[0], a[1], a[2], a[3], a[4], a[5])).collect() };
        println!("END {{\"case\":{},\"action\":{},\"obj\":{},\"ret\":{},\"log\":[{}]{}}}", case, action, obj, ret, log.join(","), extra);
    }
}
"""


def prelude():
    lst = ", ".join(f"{i} stub_{i}" for i in range(NSTUBS))
    return PRELUDE.replace("NSTUBS_PLACEHOLDER", str(NSTUBS)).replace("STUBLIST_PLACEHOLDER", lst)


# ---------------------------------------------------------------------------------------------
# values by declared (resolved, abstract) type

def is_float(t):
    return t.get("k") == "raw" and t["p"][-1] in ("f32", "f64")


def rust_ty(t, self_name=None):
    k = t.get("k")
    if k == "raw":
        p = t["p"]
        if len(p) == 1:
            return "::std::ffi::c_void" if p[0] == "void" else p[0]
        return "crate::c{CASE}::" + "::".join(p)
    if k == "cptr":
        return "*const " + rust_ty(t["t"])
    if k == "mptr":
        return "*mut " + rust_ty(t["t"])
    if k == "arr":
        return f"[{rust_ty(t['t'])}; {t['len']}]"
    return "()"


INT_BITS = {"u8": 8, "i8": 8, "u16": 16, "i16": 16, "u32": 32, "i32": 32, "u64": 64, "i64": 64, "bool": 8}


def arg_value(t, i):
    """(rust expression, expected register value, mask) for the i-th argument of type t"""
    k = t.get("k")
    if k in ("cptr", "mptr"):
        v = 0x5000_0000 + 0x100 * (i + 1)
        return f"({v}usize as {rust_ty(t)})", v, (1 << 64) - 1
    if k == "raw" and len(t["p"]) == 1 and t["p"][0] in INT_BITS:
        n = t["p"][0]
        bits = INT_BITS[n]
        if n == "bool":
            return "true", 1, 0xFF
        base = {8: 0x31, 16: 0x4321, 32: 0x1357_9B00, 64: 0x2468_ACE0_1357_0000}[bits] + i + 1
        if n.startswith("i"):
            val = -base
            return f"({val}{n})", val & ((1 << bits) - 1), (1 << bits) - 1
        return f"({base}{n})", base, (1 << bits) - 1
    return None


def ret_expr(t):
    """(how to turn the wrapper's result `r` into u64, mask)"""
    k = t.get("k")
    if k == "none":
        return "{ let _ = r; 0u64 }", 0
    if k in ("cptr", "mptr"):
        return "(r as usize as u64)", (1 << 64) - 1
    if k == "raw" and len(t["p"]) == 1 and t["p"][0] in INT_BITS and t["p"][0] != "bool":
        bits = INT_BITS[t["p"][0]]
        return f"(r as u{bits} as u64)", (1 << bits) - 1
    return None


def callable_sig(args, ret):
    """None if the rig cannot drive this signature (floats, by-value structs, arrays)"""
    vals = []
    i = 0
    for a in args:
        if a["k"] in ("cself", "mself"):
            continue
        v = arg_value(a["ty"], i)
        if v is None:
            return None
        vals.append(v)
        i += 1
    r = ret_expr(ret)
    if r is None:
        return None
    return vals, r


# ---------------------------------------------------------------------------------------------

def gen_case(cid, mods_text, actions):
    """Rust source of `pub mod c<cid>` (emitted modules + exec functions) and the list of expectations"""
    out = []
    expect = {}
    body = []
    for ai, a in enumerate(actions):
        k = a["k"]
        T = "crate::c%d::%s" % (cid, "::".join(a["ty"])) if "ty" in a else ""
        lines = [f"crate::__rig::begin({cid}, {ai});"]
        ok = True
        if k in ("vcall", "acall", "fcall"):
            sig = callable_sig(a["args"], a["ret"])
            if sig is None:
                continue
            vals, (rexpr, rmask) = sig
            has_recv = any(x["k"] in ("cself", "mself") for x in a["args"])
            call_args = ", ".join(v[0].replace("{CASE}", str(cid)) for v in vals)
            stub = ai % NSTUBS
            setup = ["let mut buf = [0u64; 256];", f"let obj = buf.as_mut_ptr() as *mut {T};"]
            exp = {"kind": k, "recv": has_recv, "args": [(v[1], v[2]) for v in vals], "rmask": rmask, "what": f"{'::'.join(a['ty'])}::{a['method']}"}
            via = a if k != "fcall" else a["via"]
            vkind = {"vcall": "slot", "acall": "addr"}.get(k) or via["kind"]
            if k == "fcall":
                path = ".".join(via["field_path"])
                setup.append(f"let sub = ::core::ptr::addr_of_mut!((*obj).{path}) as *mut usize;")
                setup.append("let suboff = (sub as usize) - (obj as usize);")
            else:
                setup.append("let sub = obj as *mut usize;")
                setup.append("let suboff = 0usize;")
            if vkind == "slot":
                n = via["table_len"]
                setup.append(f"let table: Vec<usize> = (0..{max(n, 1)}).map(|i| crate::__rig::STUBS[i % {NSTUBS}] as usize).collect();")
                if k == "vcall" and a.get("vpath"):
                    # the pointer lives in a base sub-object: the object's own first word gets a decoy table whose every slot
                    # is another stub, the real table goes where the pointer is declared to be
                    setup.append(f"let decoy: Vec<usize> = (0..{max(n, 1)}).map(|i| crate::__rig::STUBS[(i + 1) % {NSTUBS}] as usize).collect();")
                    setup.append("*sub = decoy.as_ptr() as usize;")
                    setup.append(f"let vp = ::core::ptr::addr_of_mut!((*obj).{'.'.join(a['vpath'])}) as *mut usize;")
                    setup.append("*vp = table.as_ptr() as usize;")
                else:
                    setup.append("*sub = table.as_ptr() as usize;")
                exp["stub"] = via["slot"] % NSTUBS
            else:
                addr = via["addr"]
                if addr < 0x10000:
                    continue
                setup.append(f"if !crate::__rig::trampoline({addr}usize, {stub}) {{ println!(\"SKIP {cid} {ai} unmappable\"); return; }}")
                exp["stub"] = stub
                exp["unmap"] = addr
            if has_recv:
                call = f"(*obj).{a['method']}({call_args})"
            else:
                call = f"<{T}>::{a['method']}({call_args})"
            lines += setup
            lines.append(f"let r = {call};")
            lines.append(f"let rv: u64 = {rexpr};")
            if "unmap" in exp:
                lines.append(f"crate::__rig::unmap({exp['unmap']}usize, 16);")
            lines.append(f"crate::__rig::end({cid}, {ai}, obj as usize, rv, &format!(\",\\\"suboff\\\":{{}}\", suboff));")
            expect[ai] = exp
        elif k == "vftacc":
            lines += ["let mut buf = [0u64; 256];", f"let obj = buf.as_mut_ptr() as *mut {T};",
                      "let planted = 0x7711_2200usize + 8;",
                      ("*(::core::ptr::addr_of_mut!((*obj).%s) as *mut usize) = planted;" % ".".join(a["path"])) if a.get("path") else "*(obj as *mut usize) = planted;",
                      "let r = (*obj).vftable() as usize as u64;",
                      f"crate::__rig::end({cid}, {ai}, obj as usize, r, \"\");"]
            expect[ai] = {"kind": k, "ret": 0x7711_2200 + 8, "what": f"{'::'.join(a['ty'])}::vftable()"}
        elif k == "asref":
            tgt = "crate::c%d::%s" % (cid, "::".join(a["target"]))
            path = ".".join(a["fields"])
            lines += ["let mut buf = [0u64; 256];", f"let obj = buf.as_mut_ptr() as *mut {T};",
                      f"let want = ::core::ptr::addr_of!((*obj).{path}) as usize;",
                      f"let r1 = <{T} as ::core::convert::AsRef<{tgt}>>::as_ref(&*obj) as *const {tgt} as usize;",
                      f"let r2 = <{T} as ::core::convert::AsMut<{tgt}>>::as_mut(&mut *obj) as *mut {tgt} as usize;",
                      f"crate::__rig::end({cid}, {ai}, obj as usize, (r1 == want && r2 == want) as u64, "
                      f"&format!(\",\\\"want\\\":{{}},\\\"asref\\\":{{}},\\\"asmut\\\":{{}}\", want - obj as usize, r1.wrapping_sub(obj as usize), r2.wrapping_sub(obj as usize)));"]
            expect[ai] = {"kind": k, "ret": 1, "what": f"AsRef/AsMut<{'::'.join(a['target'])}> for {'::'.join(a['ty'])}"}
        elif k == "single_struct":
            addr = a["addr"]
            lines += [f"if !crate::__rig::map({addr}usize, 8) {{ println!(\"SKIP {cid} {ai} unmappable\"); return; }}",
                      "static mut TARGET: [u64; 64] = [0; 64];",
                      f"*({addr}usize as *mut usize) = 0;",
                      f"let none = <{T}>::get().is_none();",
                      f"*({addr}usize as *mut usize) = ::core::ptr::addr_of_mut!(TARGET) as usize;",
                      f"let some = match <{T}>::get() {{ Some(r) => r as *mut {T} as usize == ::core::ptr::addr_of_mut!(TARGET) as usize, None => false }};",
                      f"crate::__rig::unmap({addr}usize, 8);",
                      f"crate::__rig::end({cid}, {ai}, 0, (none && some) as u64, &format!(\",\\\"none\\\":{{}},\\\"some\\\":{{}}\", none, some));"]
            expect[ai] = {"kind": k, "ret": 1, "what": f"{'::'.join(a['ty'])}::get()"}
        elif k == "single_enum":
            addr = a["addr"]
            lines += [f"if !crate::__rig::map({addr}usize, 8) {{ println!(\"SKIP {cid} {ai} unmappable\"); return; }}",
                      f"*({addr}usize as *mut u32) = 1;",
                      f"let v = <{T}>::get() as i128 as u64;",
                      f"crate::__rig::unmap({addr}usize, 8);",
                      f"crate::__rig::end({cid}, {ai}, 0, v, \"\");"]
            expect[ai] = {"kind": k, "ret": 1, "what": f"{'::'.join(a['ty'])}::get()"}
        elif k == "eval":
            mp = "crate::c%d::%s" % (cid, "::".join(a["module"]))
            lines += [f"let r = {mp}::get_{a['name']}() as *mut _ as *mut u8 as usize as u64;",
                      f"crate::__rig::end({cid}, {ai}, 0, r, \"\");"]
            expect[ai] = {"kind": k, "ret": a["addr"], "what": f"get_{a['name']}()"}
        else:
            continue
        body.append("{\n" + "\n".join(lines) + "\n}")
    fn = f"pub unsafe fn exec_c{cid}() {{\n" + "\n".join(f"(|| unsafe {b})();" for b in body) + "\n}"
    return f"pub mod c{cid} {{\n{mods_text}\n}}\n{fn}\n", expect


def module_text(case, obs, emit_dir):
    """inline module tree of one case (like rustobs, without dump functions; everything made reachable)"""
    cid = obs["id"]
    base = os.path.join(emit_dir, f"c{cid}")
    tree = {}
    mods_by_path = {tuple(m["path"]): m for m in case["input"]["mods"]}
    files = {tuple(f["rel"][:-3].split("/")): f for f in obs.get("files", []) if f["rel"].endswith(".rs")}
    for mp in set(files) | set(mods_by_path):
        node = tree
        for seg in mp:
            node = node.setdefault(seg, {})

    def emit(node, path):
        out = []
        for seg, child in sorted(node.items()):
            mp = path + (seg,)
            out.append(f"pub mod {seg} {{")
            if mp in files:
                text = open(os.path.join(base, files[mp]["rel"])).read()
                text = CC_RE.sub('extern "C"', text).replace('extern "system"', 'extern "C"')
                # private items must be drivable from the rig: widen visibility textually
                text = re.sub(r"(?m)^(\s*)unsafe fn ", r"\1pub unsafe fn ", text)
                text = re.sub(r"(?m)^(\s*)(struct|enum) ", r"\1pub \2 ", text)
                out.append(text)
            if mp in mods_by_path:
                out.append(_ext_supply(mods_by_path[mp]))
            out.append(emit(child, mp))
            out.append("}")
        return "\n".join(out)
    return emit(tree, ())


def run(plans, emit_dir, outdir, batch=150, jobs=8):
    """plans: list of (case, obs, actions).  Returns (results {(cid, ai): record}, expectations {(cid, ai): exp},
    crashed {cid: message}, compile_failures {cid: msg})"""
    os.makedirs(outdir, exist_ok=True)
    batches = [plans[i:i + batch] for i in range(0, len(plans), batch)]
    results, expects, crashed, cfail = {}, {}, {}, {}

    def one(bi, b):
        res, exp, crash, cf = {}, {}, {}, {}
        remaining = list(b)
        for attempt in range(8):
            if not remaining:
                break
            src = [prelude().rstrip("\n")]
            line = src[0].count("\n") + 2
            ranges = []
            calls = []
            local_exp = {}
            for case, obs, actions in remaining:
                text, e = gen_case(obs["id"], module_text(case, obs, emit_dir), actions)
                n = text.count("\n")
                ranges.append((line, line + n, obs["id"]))
                line += n + 1
                src.append(text.rstrip("\n"))
                calls.append(f"if !skip.contains(&{obs['id']}i64) {{ unsafe {{ exec_c{obs['id']}(); }} }}")
                for ai, x in e.items():
                    local_exp[(obs["id"], ai)] = x
            src.append("fn main() {\n let skip: Vec<i64> = std::env::args().skip(1).filter_map(|a| a.parse().ok()).collect();\n"
                       + "\n".join(calls) + "\n}")
            path = os.path.join(outdir, f"exec_{bi}.rs")
            exe = os.path.join(outdir, f"exec_{bi}")
            open(path, "w").write("\n".join(src) + "\n")
            p = subprocess.run(["rustc", "--edition", "2021", "-C", "debuginfo=0", "-C", "opt-level=0", "-C", "codegen-units=4",
                                "--error-format=short", "-o", exe, path], stdout=subprocess.PIPE, stderr=subprocess.STDOUT, text=True)
            if p.returncode != 0:
                bad = {}
                for m in re.finditer(r"^[^\n:]+:(\d+):\d+: error(\[E\d+\])?: ([^\n]*)", p.stdout, re.M):
                    ln = int(m.group(1))
                    for lo, hi, cid in ranges:
                        if lo <= ln <= hi:
                            bad.setdefault(cid, (m.group(2) or "") + " " + m.group(3))
                if not bad:
                    raise ToolError("exec rig does not compile:\n" + p.stdout[-3000:])
                cf.update(bad)
                remaining = [x for x in remaining if x[1]["id"] not in bad]
                continue
            exp.update(local_exp)
            skip = []
            for _ in range(len(remaining) + 2):
                r = subprocess.run([exe] + [str(s) for s in skip], stdout=subprocess.PIPE, stderr=subprocess.STDOUT, text=True, timeout=600)
                last = None
                for l in r.stdout.splitlines():
                    if l.startswith("BEGIN "):
                        _, c, a = l.split()
                        last = (int(c), int(a))
                    elif l.startswith("END "):
                        rec = json.loads(l[4:])
                        res[(rec["case"], rec["action"])] = rec
                        last = None
                    elif l.startswith("SKIP "):
                        _, c, a, why = l.split(None, 3)
                        res[(int(c), int(a))] = {"skipped": why}
                        last = None
                if r.returncode == 0:
                    break
                if last is None:
                    raise ToolError(f"exec rig died outside any action: {r.stdout[-500:]}")
                crash[last[0]] = f"action {last[1]} ({local_exp.get(last, {}).get('what')}): process died with status {r.returncode}: {r.stdout[-200:]}"
                skip.append(last[0])
            break
        for f in (os.path.join(outdir, f"exec_{bi}"),):
            try:
                os.remove(f)
            except OSError:
                pass
        return res, exp, crash, cf

    with ThreadPoolExecutor(max_workers=jobs) as ex:
        futs = [ex.submit(one, i, b) for i, b in enumerate(batches)]
        for f in futs:
            r, e, c, cf = f.result()
            results.update(r); expects.update(e); crashed.update(c); cfail.update(cf)
    return results, expects, crashed, cfail


def judge(rec, exp):
    """returns None if the recorded execution matches the expectation, else a description"""
    if rec is None:
        return "not executed"
    if "skipped" in rec:
        return None
    k = exp["kind"]
    if k in ("vftacc", "asref", "single_struct", "single_enum", "eval"):
        if rec["ret"] != exp["ret"]:
            return f"{exp['what']} returned {rec['ret']}, expected {exp['ret']} ({ {x: rec[x] for x in rec if x not in ('case', 'action', 'log', 'obj', 'ret')} })"
        return None
    log = rec["log"]
    if len(log) != 1:
        return f"{exp['what']}: {len(log)} calls recorded, expected exactly one"
    stub, regs = log[0]
    if stub != exp["stub"]:
        return f"{exp['what']}: reached entry {stub}, expected {exp['stub']}"
    want = []
    if exp["recv"]:
        want.append((rec["obj"] + rec.get("suboff", 0), (1 << 64) - 1))
    want += [tuple(x) for x in exp["args"]]
    for i, (v, mask) in enumerate(want):
        if i >= 6:
            break
        if regs[i] & mask != v & mask:
            return f"{exp['what']}: argument register {i} holds {regs[i] & mask:#x}, expected {v & mask:#x}" + (" (the receiver)" if i == 0 and exp["recv"] else "")
    if exp["rmask"]:
        wantret = (0xAB00_0000_0000_AB00 + stub) & exp["rmask"]
        if rec["ret"] & exp["rmask"] != wantret:
            return f"{exp['what']}: returned {rec['ret']:#x}, the callee returned {wantret:#x}"
    return None


def apply(pl, res, planner, payload_fn, cov):
    """run the rig over every accepted pointer-width-8 behaviour of a pipeline; planner(case) -> actions"""
    plans = []
    by_id = {}
    for case, obs in pl.pairs():
        if not obs.get("accepted") or case["input"]["ptr"] != 8 or not obs.get("files"):
            continue
        if obs["id"] in pl.cfail.get("host", {}):
            continue
        try:
            acts = planner(case)
        except (KeyError, StopIteration, IndexError) as e:
            res.notes.append(f"case {case['id']}: no execution plan ({e!r})")
            continue
        if acts:
            slim = {"id": case["id"], "input": case["input"]}
            plans.append((slim, {"id": obs["id"], "files": obs["files"]}, acts))
            by_id[case["id"]] = (case, obs)
    if not plans:
        cov["executed_actions"] = 0
        return
    results, expects, crashed, cfail = run(plans, pl.emit_dir, os.path.join(pl.dir, "exec"))
    n = bad = skipped = 0
    for (cid, ai), exp in sorted(expects.items()):
        if cid in crashed:
            continue
        rec = results.get((cid, ai))
        if rec is not None and "skipped" in rec:
            skipped += 1
            continue
        n += 1
        why = judge(rec, exp)
        if why:
            bad += 1
            case, obs = by_id[cid]
            res.violation("executed on the host: " + why, payload_fn(case, obs, {"execution": rec, "expected": {k: v for k, v in exp.items() if k != "args"}}))
        elif len(res.samples) < 6 and n % 211 == 0:
            res.sample({"executed": exp["what"], "record": rec})
    for cid, msg in crashed.items():
        case, obs = by_id[cid]
        res.violation("executed on the host: the process crashed in " + msg, payload_fn(case, obs))
    for cid, msg in cfail.items():
        res.notes.append(f"case {cid}: the execution driver does not compile against the emitted code: {msg}")
    cov["executed_actions"] = n
    cov["execution_skipped_unmappable"] = skipped
    cov["execution_driver_compile_failures"] = len(cfail)
    cov["traces_validated_against_impl"] = cov.get("traces_validated_against_impl", 0) + n
