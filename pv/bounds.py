"""C12: every input yields a result.  Boundary integers in every numeric position, identifier
shapes, repeated API calls (MC_Bounds), single-token mutations of the printed modules, the
vftable and `_`-field layout spaces, plus termination / deadlock freedom of the machine in TLC."""
import json, os, subprocess, time
from .common import *
from . import tlc, harness
from .layout import Pipeline, payload
from .result import Result


def bad(obs):
    return obs.get("outcome") in ("panic", "hang", "abort")


def proportional(case):
    """positions whose value is a number of table slots the input asks for"""
    tag = case.get("tag") or []
    if len(tag) == 2 and tag[0] == "pos" and tag[1] in ("vft_index", "vft_size"):
        from .conform import num
        v = case["input"]["mods"][0]["defs"][0]["vft"]
        val = v["size"] if tag[1] == "vft_size" else v["funcs"][0]["index"]
        n = num(val)
        return isinstance(n, int) and 2**20 <= n < 2**63
    return False


def kf_class_for(case, obs):
    tag = case.get("tag") or []
    if len(tag) == 2:
        return f"C12:{tag[0]}:{tag[1]}"
    return None


def mutate_run(cases_path, outdir, n, timeout_ms=5000, mem_kb=3_000_000):
    os.makedirs(outdir, exist_ok=True)
    obs_path = os.path.join(outdir, "mut.ndjson")
    open(obs_path, "w").close()
    with open(cases_path) as f:
        total = sum(1 for l in f if l.strip()) * n
    skip = 0
    for _ in range(300):
        cmd = (f"ulimit -v {mem_kb}; exec {PVH} mutate --in {cases_path} --out {obs_path} --n {n} --seed {seed()} "
               f"--skip {skip} --timeout-ms {timeout_ms}")
        p = subprocess.run(["bash", "-c", cmd], stdout=subprocess.PIPE, stderr=subprocess.STDOUT, text=True)
        with open(obs_path) as f:
            done = sum(1 for l in f if l.strip())
        if p.returncode == 0:
            break
        if p.returncode == 3:
            skip = done
            continue
        with open(obs_path, "a") as f:
            f.write(json.dumps({"id": -done, "outcome": "abort", "accepted": False,
                                "msg": f"process died with status {p.returncode} on mutant #{done}: {p.stdout[-200:]}"}) + "\n")
        skip = done + 1
    return obs_path, total


def unicode_cases():
    """inputs whose emitted Rust cannot be pretty-printed (an item named `_`, a malformed prologue) next to multi-byte text of
    varying length: the error path quotes the offending line"""
    from .randgraph import nm, field, typedef
    jp = "\u65e5\u672c\u8a9e\u306e\u8aac\u660e\uff1a\u3053\u308c\u306f\u9577\u3044\u8aac\u660e\u6587\u3067\u3059\u3002"
    out = []
    cid = 0
    for n in (1, 2, 5, 11, 19, 20, 21, 30, 47, 61):
        text = " " + (jp * 5)[:n] + " \u00e9\u00e8 \U0001F980"
        for kind in ("anon-type", "bad-prologue", "fine"):
            cid += 1
            tname = "_" if kind == "anon-type" else "T"
            t = typedef(tname, [field("a", nm("u32")), field("b", nm("u32"))], False)
            t["doc"] = [text]
            t["fields"][0]["doc"] = [text, ""]
            m = {"path": ["m"], "doc": [text], "uses": [], "exts": [], "evals": [], "defs": [t], "impls": [],
                 "backs": [{"name": "rust", "pro": ("fn \u58ca ( { " + text) if kind == "bad-prologue" else ("// " + text), "epi": "\n"}]}
            out.append({"id": cid, "group": "bounds-unicode", "tag": ["unicode", kind, n], "input": {"ptr": 8, "mods": [m]},
                        "order": [], "sched": []})
    return out


def run_bounds(pid, tier):
    res = Result(pid, tier)
    cov = {"states": 0, "transitions": 0, "traces_validated_against_impl": 0, "tlc": [], "checker_cmd": "", "exhaustive": True}
    n_eval = 0
    classes = {}
    # ---- 1. termination and deadlock freedom of the machine (liveness under weak fairness)
    d0 = fresh_dir("run", f"bounds-{tier}-live")
    st = tlc.run_tlc("MC_Graph", "MC_Graph_live.cfg", d0, workers=8, timeout=1500)
    if st["violation"]:
        res.violation("the specification's build does not always terminate / has a state without successor: "
                      + st["violation"]["invariant"], {"tlc": st["violation"]["text"][:3000]})
    cov["states"] += st["distinct"]; cov["transitions"] += st["generated"]
    cov["tlc"].append({k: st[k] for k in ("module", "cfg", "depth", "wall_s")}); cov["checker_cmd"] += st["cmd"] + " ; "
    # ---- 1b. the same run checks that Pyxis.tla refines LoopAbs.tla (PROPERTY RefinesLoopAbs, INVARIANT LoopAbsInv);
    #          the pass bound of LoopAbs is proved for worklists of any size with TLAPS
    cov["tlaps"] = tlaps_proofs()
    # ---- 2. the generated spaces
    spaces = [("MC_Bounds", {"quick": ["MC_Bounds_q1.cfg"], "thorough": ["MC_Bounds_q1.cfg"]}, "bounds", 4),
              ("MC_Layout", {"quick": ["MC_Layout_q3.cfg"], "thorough": ["MC_Layout_q3.cfg", "MC_Layout_t3.cfg"]}, "bounds-layout", 8),
              ("MC_Vft", {"quick": ["MC_Vft_q1.cfg"], "thorough": ["MC_Vft_t1.cfg"]}, "bounds-vft", 8),
              # dependency graphs with by-value cycles and undefined names: several permanently stuck types
              ("MC_Graph", {"quick": ["MC_Graph_q4.cfg"], "thorough": ["MC_Graph_q1.cfg", "MC_Graph_q4.cfg"]}, "bounds-graph", 8)]
    for module, cfgs, name, workers in spaces:
        d = os.path.join(WORK, "run", f"{name}-{tier}")
        pl = Pipeline(tier, module=module, cfgs=cfgs, name=name, workers=workers,
                      replay_flags=["--emit-dir", os.path.join(d, "emit"), "--prefix", "--project", "--sched"])
        bc = pl.base_coverage()
        for k in ("states", "transitions", "traces_validated_against_impl"):
            cov[k] += bc[k]
        cov["tlc"].append(bc["tlc"]); cov["checker_cmd"] += bc["checker_cmd"] + " ; "
        benign = []
        for case, obs in pl.pairs():
            n_eval += 1
            classes[obs["outcome"]] = classes.get(obs["outcome"], 0) + 1
            if name == "bounds" and not bad(obs) and not proportional(case):
                benign.append(json.dumps({"id": case["id"], "input": case["input"]}))
            if bad(obs) and proportional(case):
                # a vftable index / size of 2^32 and more asks for that many slots: memory proportional to
                # what the input asks for is allowed by the property; the address-space cap of the harness is hit
                classes["proportional-" + obs["outcome"]] = classes.get("proportional-" + obs["outcome"], 0) + 1
            elif bad(obs):
                res.violation(f"{obs['outcome']} instead of a result: {str(obs.get('msg'))[:160]}", payload(case, obs),
                              kf_class_for(case, obs))
            elif name == "bounds" and len(res.samples) < 4 and n_eval % 97 == 0:
                res.sample({"tag": case.get("tag"), "outcome": obs["outcome"], "msg": obs.get("msg", "")[:120]})
        if name == "bounds":
            # ---- 3. single-token mutations of the printed modules
            bpath = os.path.join(pl.dir, "benign.ndjson")
            with open(bpath, "w") as f:
                f.write("\n".join(benign) + "\n")
            mpath, total = mutate_run(bpath, os.path.join(pl.dir, "mut"), 6 if tier == "quick" else 40)
            nm = 0
            for o in tlc.read_ndjson(mpath):
                nm += 1
                classes["mut-" + o["outcome"]] = classes.get("mut-" + o["outcome"], 0) + 1
                if bad(o):
                    res.violation(f"{o['outcome']} on a single-token mutation of a valid module: {str(o.get('msg'))[:160]}",
                                  {"mutated_text": o.get("text"), "observed": o})
            cov["token_mutants"] = nm
            n_eval += nm
            # ---- 4. parse errors carry file:line:column (through add_file / pyxis::build)
            perr = check_parse_positions(pl)
            for msg in perr:
                res.violation(msg, {"detail": msg})
            # ---- 4a. add_file with files outside the base directory
            for msg in check_add_file_paths(pl):
                res.violation(msg, {"detail": msg})
            # ---- 4b. input directories with unusual names
            for msg in check_special_directories(pl):
                res.violation(msg, {"detail": msg})
    # ---- 5. multi-byte text next to output that cannot be pretty-printed (the error path quotes the line)
    ud = fresh_dir("run", f"bounds-{tier}-unicode")
    ucases = unicode_cases()
    upath = os.path.join(ud, "cases.ndjson")
    with open(upath, "w") as f:
        for c in ucases:
            f.write(json.dumps(c) + "\n")
    uobs, _ = harness.replay(upath, os.path.join(ud, "rp"), ["--emit-dir", os.path.join(ud, "emit"), "--style-seed", str(seed())], jobs=4)
    for c, o in zip(ucases, tlc.read_ndjson(uobs)):
        n_eval += 1
        classes["unicode-" + o["outcome"]] = classes.get("unicode-" + o["outcome"], 0) + 1
        if bad(o):
            res.violation(f"{o['outcome']} instead of a result on multi-byte text ({c['tag']}): {str(o.get('msg'))[:160]}", payload(c, o))
    # ---- 6. the language specification (Parse.tla): every single-token mutation of its base modules; a rejection must name
    #          the offending token (line and column), and no token sequence may make the parser panic
    from . import parse
    pst, pcnt, problems = parse.conformance(tier, "c12")
    for kind, case, pr in problems:
        if kind in ("position", "panic"):
            res.violation(parse.KINDS[kind] + ": " + json.dumps(pr["detail"])[:300], parse.payload(case, pr))
    cov["states"] += pst["distinct"]; cov["transitions"] += pst["generated"]; cov["traces_validated_against_impl"] += pcnt["prints"]
    cov["tlc"].append({k: pst[k] for k in ("module", "cfg", "depth", "wall_s")}); cov["checker_cmd"] += pst["cmd"] + " ; "
    cov["parse_positions"] = pcnt
    n_eval += pcnt["prints"]
    cov.update({"evaluations": n_eval, "distinct_nontrivial": n_eval, "outcomes": classes,
                "rule": "boundary integers (symbolic: -1, 0, 1, 2^31, 2^32, 2^60..2^62, i64/u64 max +-1) in each of 17 numeric positions at "
                        "both widths, identifier shapes, repeated add_module, every vftable block and `_`-field layout of the other "
                        "groups, and seeded single-token mutations of the printed modules; each run under catch_unwind with a "
                        "wall-clock bound and an address-space cap; an outcome other than Ok/Err is a violation"})
    res.coverage = cov
    res.assumptions = ["arbitrary byte strings are outside the specification: covered are grammar-directed mutations of printed modules",
                       "a vftable #[size(N)] may allocate N slots (memory proportional to what the input asks for)"]
    return res.finish()


def tlaps_proofs(module="LoopAbsProofs", needs=("LoopAbs.tla",),
                 theorems=("InvHolds", "Bounded: passes <= |first worklist| + X + 1")):
    """tlapm on spec/<module>.tla; a failing or unavailable prover is a tool error (the proof is about the
    abstract specification only, it cannot be a violation of pyxis)."""
    import re, shutil
    from .common import SPEC, ToolError
    d = fresh_dir("run", "tlaps-" + module)
    for f in tuple(needs) + (module + ".tla",):
        shutil.copy(os.path.join(SPEC, f), d)
    t = time.time()
    m = None
    for stretch in ("1", "5"):       # a loaded machine can time a back end out: one retry with longer prover timeouts
        p = subprocess.run(["timeout", "900", "tlapm", "--threads", "8", "--stretch", stretch, "--cache-dir", os.path.join(d, "cache"), module + ".tla"],
                           cwd=d, stdout=subprocess.PIPE, stderr=subprocess.STDOUT, text=True)
        m = re.search(r"All (\d+) obligations proved", p.stdout)
        if m:
            break
    if not m:
        raise ToolError(f"tlapm did not prove {module}.tla: " + p.stdout[-600:])
    return {"module": module, "obligations_proved": int(m.group(1)), "wall_s": round(time.time() - t, 1),
            "theorems": list(theorems)}


PARSE_ERRORS = {
    # the mark sits in front of the offending token; each is mid-line so that "the line of the error" is unambiguous
    "field_colon": "pub type B {\n  x: u32,\n  y \u27e6u32,\n}\n",
    "backend_entry": "backend rust {\n  prologue \"use a::b;\";\n  \u27e6epilog \"fn t() {}\";\n}\n\npub type C { x: u32 }\n",
    "enum_base": "pub type A { x: u32 }\nenum E \u27e6{ A }\n",
    "extern_type": "pub type A { x: u32 }\n#[address(0x10)]\nextern x\u27e6;\npub type Z { y: u32 }\n",
    "impl_fn": "pub type T { x: u32 }\nimpl T {\n  #[address(0x10)]\n  fn f\u27e6;\n}\n",
    "item_kw": "pub type T { x: u32 }\n\n\u27e6struct X {}\n",
    "ptr_type": "pub type T {\n  a: u32,\n  b: *\u27e6u32,\n  c: u32,\n}\n",
    "vft_ret": "pub type T {\n  vftable {\n    fn f(&self) -> \u27e6;\n  },\n  c: u32,\n}\n",
    "attr_arg": "pub type Q { x: u32 }\n#[size(\u27e6=)]\npub type T { x: u32 }\n",
    "array_len": "pub type T {\n  a: [u32; \u27e6x],\n  c: u32,\n}\n",
    # the offending token is the very first one of the file
    "first_token": "\u27e6struct X {\n}\npub type A { x: u32 }\n",
    "second_line_start": "pub type A { x: u32 }\n\u27e6typo B { x: u32 }\npub type C { x: u32 }\n",
}


def check_parse_positions(pl):
    """a syntactically broken file must be reported with path:line:col, the line being the line of the offending token
    (ten kinds of syntax error, each in a nested file next to a valid one, through pyxis::build)"""
    import re, shutil
    out = []
    for kind, text in PARSE_ERRORS.items():
        d = os.path.join(pl.dir, "parsepos", kind)
        shutil.rmtree(d, ignore_errors=True)
        os.makedirs(os.path.join(d, "in", "sub"))
        pos = text.index("\u27e6")
        line = text[:pos].count("\n") + 1
        open(os.path.join(d, "in", "ok.pyxis"), "w").write("pub type A { x: u32 }\n")
        open(os.path.join(d, "in", "sub", "bad.pyxis"), "w").write(text.replace("\u27e6", ""))
        p = subprocess.run([PVH, "buildtree", "--in-dir", os.path.join(d, "in"), "--out-dir", os.path.join(d, "out")],
                           stdout=subprocess.PIPE, stderr=subprocess.STDOUT, text=True)
        msg = p.stdout
        if "outcome=err" not in msg:
            out.append(f"a file with a syntax error ({kind}) is not rejected: {msg[:200]}")
            continue
        m = re.search(r"sub/bad\.pyxis:(\d+):(\d+)", msg)
        if not m:
            out.append(f"the parse error ({kind}) does not identify file, line and column (expected sub/bad.pyxis:{line}:<col>): {msg[:300]}")
        elif int(m.group(1)) != line:
            out.append(f"the parse error ({kind}) is reported at line {m.group(1)}, the offending token is on line {line}: {msg[:300]}")
        elif int(m.group(2)) != pos - (text.rfind("\n", 0, pos) + 1) + 1:
            out.append(f"the parse error ({kind}) is reported at column {m.group(2)}, the offending token starts at column "
                       f"{pos - (text.rfind(chr(10), 0, pos) + 1) + 1} of line {line}: {msg[:300]}")
    return out


def check_add_file_paths(pl):
    """SemanticState::add_file with a file that does not lie under the base directory it is given (an absolute path elsewhere,
    a relative path that climbs out): a result, never a panic (C12: any sequence of public API calls)"""
    import shutil
    out = []
    root = os.path.join(pl.dir, "addfile")
    shutil.rmtree(root, ignore_errors=True)
    os.makedirs(os.path.join(root, "in", "sub"))
    os.makedirs(os.path.join(root, "elsewhere"))
    open(os.path.join(root, "in", "sub", "m.pyxis"), "w").write("pub type A { x: u32 }\n")
    open(os.path.join(root, "elsewhere", "n.pyxis"), "w").write("pub type B { y: u32 }\n")
    cases = [("file under the base", os.path.join(root, "in"), os.path.join(root, "in", "sub", "m.pyxis")),
             ("absolute file outside the base", os.path.join(root, "in"), os.path.join(root, "elsewhere", "n.pyxis")),
             ("base that does not exist", "/nonexistent_base_dir", os.path.join(root, "elsewhere", "n.pyxis")),
             ("file that does not exist", os.path.join(root, "in"), os.path.join(root, "in", "missing.pyxis")),
             ("relative base, absolute file", "in", os.path.join(root, "in", "sub", "m.pyxis"))]
    for what, base, path in cases:
        p = subprocess.run([PVH, "addfile", "--base", base, "--path", path], stdout=subprocess.PIPE, stderr=subprocess.STDOUT, text=True, cwd=root)
        if "outcome=ok" not in p.stdout and "outcome=err" not in p.stdout:
            out.append(f"add_file ({what}: base {base}, file {path}) ends in {p.stdout.strip()[:120] or 'a crash'} instead of a result")
    return out


def check_special_directories(pl):
    """pyxis::build on input directories whose names contain glob metacharacters, spaces or dots, next to a sibling directory
    that such a name would match as a pattern: an outcome other than Ok / Err is a violation, and so is a result that differs
    from the same tree under a plain name (C12: unusual names never cause a panic)"""
    import shutil
    out = []
    root = os.path.join(pl.dir, "specialdirs")
    shutil.rmtree(root, ignore_errors=True)
    tree = {"a.pyxis": "pub type A { x: u32 }\n", "sub/b.pyxis": "use a::A;\npub type B { a: A, y: u32 }\n"}

    def put(d):
        for rel, text in tree.items():
            p_ = os.path.join(d, rel)
            os.makedirs(os.path.dirname(p_), exist_ok=True)
            open(p_, "w").write(text)

    def run(ind, outd):
        p = subprocess.run([PVH, "buildtree", "--in-dir", ind, "--out-dir", outd], stdout=subprocess.PIPE, stderr=subprocess.STDOUT,
                           text=True, timeout=60)
        return p.stdout.strip()

    def listing(outd):
        res_ = []
        for dp, _, fs in os.walk(outd):
            for f in fs:
                fp = os.path.join(dp, f)
                res_.append((os.path.relpath(fp, outd), sha(open(fp).read())))
        return sorted(res_)

    put(os.path.join(root, "plain", "in"))
    ref = run(os.path.join(root, "plain", "in"), os.path.join(root, "plain", "out"))
    ref_files = listing(os.path.join(root, "plain", "out"))
    if not ref.startswith("outcome=ok"):
        return [f"reference tree not built: {ref[:200]}"]
    # each special name together with the sibling it would match if it were read as a glob pattern
    for name, sibling in (("x_a[b]", "x_ab"), ("x_a?c", "x_abc"), ("x_*", "x_other"), ("x y", None), ("x.d", None), ("x{a,b}", "xa")):
        d = os.path.join(root, name)
        put(os.path.join(d, "in"))
        if sibling:
            sd = os.path.join(root, sibling, "in")
            os.makedirs(sd, exist_ok=True)
            open(os.path.join(sd, "intruder.pyxis"), "w").write("pub type Intruder { x: u8 }\n")
        try:
            got = run(os.path.join(d, "in"), os.path.join(d, "out"))
        except subprocess.TimeoutExpired:
            out.append(f"pyxis::build on input directory `{name}/in` did not finish in 60 s")
            continue
        if not got.startswith(("outcome=ok", "outcome=err")):
            out.append(f"pyxis::build on input directory `{name}/in`: {got[:160]} instead of a result")
        elif got.startswith("outcome=ok") and listing(os.path.join(d, "out")) != ref_files:
            out.append(f"pyxis::build on input directory `{name}/in` gives {listing(os.path.join(d, 'out'))}, the same tree under a plain "
                       f"name gives {ref_files}")
    return out
