"""Observation of emitted code through the real compilers.

host():  the emitted files of many cases are assembled into one crate (inline modules
         mirroring the module tree, extern types supplied, calling-convention strings
         normalised to "C"), compiled by the host stable rustc and run; a generated child
         module per emitted file prints size_of / align_of / offset_of! / discriminants.
i686():  struct / enum definitions are extracted into a #![no_core] crate and compiled by
         nightly rustc for i686-pc-windows-msvc with #[rustc_dump_layout(debug)].
"""
import json, os, re, subprocess, time
from concurrent.futures import ThreadPoolExecutor
from .common import *

CC_RE = re.compile(r'extern\s+"(cdecl|stdcall|fastcall|thiscall|vectorcall)"')


def _ext_supply(mod, derives=True):
    """the extern types of a module, supplied by the user of the bindings: plain-old-data of the declared size and alignment
    (Copy + Clone on the host, so that a copyable type may embed one; the no_core crate has no derives)"""
    out = []
    for e in mod.get("exts") or []:
        if e["size"] == NONE or e["align"] == NONE:
            continue
        out.append(("#[derive(Clone, Copy)] " if derives else "")
                   + f'#[repr(C, align({max(1, e["align"])}))] pub struct {e["name"]}(pub [u8; {e["size"]}]);')
    return "\n".join(out)


HOST_PRELUDE = r"""#![allow(warnings)]
pub fn __emit_struct(case: i64, path: &str, size: usize, align: usize, offs: &[(&str, usize)]) {
    let o: Vec<String> = offs.iter().map(|(n, v)| format!("{:?}:{}", n, v)).collect();
    println!("{{{:?}:{},{:?}:{},{:?}:{:?},{:?}:{},{:?}:{},{:?}:{{{}}}}}", "case", case, "path", path, "k", "struct", "size", size, "align", align, "offs", o.join(","));
}
pub fn __emit_enum(case: i64, path: &str, size: usize, align: usize, vals: &[(&str, i128)], dflt: Option<i128>) {
    let o: Vec<String> = vals.iter().map(|(n, v)| format!("{:?}:{:?}", n, v.to_string())).collect();
    let d = match dflt { Some(v) => format!(",{:?}:{:?}", "default", v.to_string()), None => String::new() };
    println!("{{{:?}:{},{:?}:{},{:?}:{:?},{:?}:{},{:?}:{},{:?}:{{{}}}{}}}", "case", case, "path", path, "k", "enum", "size", size, "align", align, "vals", o.join(","), d);
}
"""
HOST_PRELUDE_LINES = HOST_PRELUDE.count("\n")


def _dump_fn(case_id, modpath, proj):
    """source of `pub mod __verif` for one emitted file"""
    lines = ["pub mod __verif {", "#[allow(unused_imports)] use super::*;", "pub fn dump() {"]
    items = proj.get("items") or {}
    for name, it in items.items():
        p = json.dumps(modpath + [name], separators=(",", ":"))
        if it.get("k") == "struct" and it.get("count") == 1:
            fields = [f["name"] for f in it.get("fields", []) if f["name"]]
            pairs = ", ".join('("%s", ::core::mem::offset_of!(%s, %s))' % (f, name, f) for f in fields)
            lines.append('crate::__emit_struct(%d, r#"%s"#, ::core::mem::size_of::<%s>(), ::core::mem::align_of::<%s>(), &[%s]);'
                         % (case_id, p, name, name, pairs))
        elif it.get("k") == "enum" and it.get("count") == 1:
            vs = [v["name"] for v in it.get("vars", [])]
            pairs = ", ".join('("%s", %s::%s as i128)' % (v, name, v) for v in vs)
            dflt = "None"
            if "Default" in (it.get("derives") or []):
                dflt = "Some(<%s as ::core::default::Default>::default() as i128)" % name
            lines.append('crate::__emit_enum(%d, r#"%s"#, ::core::mem::size_of::<%s>(), ::core::mem::align_of::<%s>(), &[%s], %s);'
                         % (case_id, p, name, name, pairs, dflt))
    lines += ["}", "}"]
    return "\n".join(lines)


def _module_tree(case, obs, emit_dir, with_dump=True, transform=None):
    """returns (source text of `pub mod c<id> {...}`, list of dump call paths)"""
    cid = obs["id"]
    base = os.path.join(emit_dir, f"c{cid}")
    tree = {}
    mods_by_path = {tuple(m["path"]): m for m in case["input"]["mods"]}
    files = {tuple(f["rel"][:-3].split("/")): f for f in obs.get("files", []) if f["rel"].endswith(".rs")}
    for mp in set(files) | set(mods_by_path):
        node = tree
        for seg in mp:
            node = node.setdefault(seg, {})
    dumps = []

    def emit(node, path):
        out = []
        for seg, child in sorted(node.items()):
            mp = path + (seg,)
            out.append(f"pub mod {seg} {{")
            if mp in files:
                text = open(os.path.join(base, files[mp]["rel"])).read()
                text = CC_RE.sub('extern "C"', text)
                if transform:
                    text = transform(text)
                out.append(text)
                if with_dump and "proj" in files[mp]:
                    out.append(_dump_fn(cid, list(mp), files[mp]["proj"]))
                    dumps.append("crate::c%d::%s::__verif::dump();" % (cid, "::".join(mp)))
            if mp in mods_by_path:
                out.append(_ext_supply(mods_by_path[mp]))
            out.append(emit(child, mp))
            out.append("}")
        return "\n".join(out)

    return f"pub mod c{cid} {{\n{emit(tree, ())}\n}}\n", dumps


def _compile_batch(idx, batch, emit_dir, outdir, run_it=True):
    """batch: list of (case, obs). returns (layouts list, failures {case_id: message})"""
    failures = {}
    remaining = list(batch)
    layouts = []
    for attempt in range(6):
        if not remaining:
            break
        src = [HOST_PRELUDE.rstrip("\n")]
        ranges = []
        dumps = []
        line = HOST_PRELUDE_LINES + 1
        for case, obs in remaining:
            text, d = _module_tree(case, obs, emit_dir)
            n = text.count("\n")
            ranges.append((line, line + n - 1, obs["id"]))
            line += n
            src.append(text.rstrip("\n"))
            dumps += d
        src.append("fn main() {\n" + "\n".join(dumps) + "\n}")
        path = os.path.join(outdir, f"host_{idx}.rs")
        exe = os.path.join(outdir, f"host_{idx}")
        with open(path, "w") as f:
            f.write("\n".join(src) + "\n")
        p = subprocess.run(["rustc", "--edition", "2021", "-C", "debuginfo=0", "-C", "opt-level=0",
                            "-C", "codegen-units=4", "--error-format=short", "-o", exe, path],
                           stdout=subprocess.PIPE, stderr=subprocess.STDOUT, text=True)
        if p.returncode == 0:
            if run_it:
                r = subprocess.run([exe], stdout=subprocess.PIPE, stderr=subprocess.STDOUT, text=True)
                if r.returncode != 0:
                    raise ToolError(f"layout dump program failed: {r.stdout[-500:]}")
                for l in r.stdout.splitlines():
                    if l.startswith("{"):
                        layouts.append(json.loads(l))
            for ext in ("", ".rs"):
                try:
                    os.remove(exe + ext) if ext == "" else None
                except OSError:
                    pass
            break
        # attribute errors to cases by line number, drop those cases, retry
        bad = {}
        for m in re.finditer(r"^[^\n:]+:(\d+):\d+: error(\[E\d+\])?: ([^\n]*)", p.stdout, re.M):
            ln = int(m.group(1))
            for lo, hi, cid in ranges:
                if lo <= ln <= hi:
                    bad.setdefault(cid, (m.group(2) or "") + " " + m.group(3))
        if not bad:
            raise ToolError("rustc failed without attributable errors:\n" + p.stdout[-3000:])
        failures.update(bad)
        remaining = [(c, o) for c, o in remaining if o["id"] not in bad]
    return layouts, failures


def host(pairs, emit_dir, outdir, batch=400, jobs=8):
    """pairs: list of (case, obs) for accepted builds with files.  Returns
    ({(case_id, path tuple): layout}, {case_id: compile error})"""
    os.makedirs(outdir, exist_ok=True)
    batches = [pairs[i:i + batch] for i in range(0, len(pairs), batch)]
    layouts, failures = {}, {}
    with ThreadPoolExecutor(max_workers=jobs) as ex:
        futs = [ex.submit(_compile_batch, i, b, emit_dir, outdir) for i, b in enumerate(batches)]
        for f in futs:
            ls, fs = f.result()
            for l in ls:
                layouts[(l["case"], tuple(l["path"]))] = l
            failures.update(fs)
    return layouts, failures


# ----------------------------------------------------------------------------------------
# pointer width 4: nightly rustc, i686-pc-windows-msvc, #![no_core], layout dump
NOCORE_PRELUDE = """#![feature(no_core, lang_items, rustc_attrs, abi_vectorcall)]
#![no_core]
#![allow(warnings)]
#[lang = "pointee_sized"] pub trait PointeeSized {}
#[lang = "meta_sized"] pub trait MetaSized: PointeeSized {}
#[lang = "sized"] pub trait Sized: MetaSized {}
#[lang = "copy"] pub trait Copy {}
#[lang = "neg"] pub trait Neg { type Output; fn neg(self) -> Self::Output; }
impl Neg for isize { type Output = isize; fn neg(self) -> isize { -self } }
impl Neg for i128 { type Output = i128; fn neg(self) -> i128 { -self } }
impl Neg for i64 { type Output = i64; fn neg(self) -> i64 { -self } }
impl Neg for i32 { type Output = i32; fn neg(self) -> i32 { -self } }
pub mod __core { #[repr(u8)] pub enum c_void { A, B } }
"""
_NIGHTLY = None


def nightly_rustc():
    global _NIGHTLY
    if _NIGHTLY is None:
        p = run(["rustup", "which", "--toolchain", "nightly", "rustc"])
        if p.returncode != 0:
            raise ToolError("nightly rustc not found: " + p.stdout)
        _NIGHTLY = p.stdout.strip()
    return _NIGHTLY


_VOID_RE = re.compile(r"::\s*(?:std|core)\s*::\s*(?:ffi|os\s*::\s*raw)\s*::\s*c_void")


def _nocore_batch(idx, batch, outdir, target):
    lines = NOCORE_PRELUDE.rstrip("\n").split("\n")
    where = {}      # line number (1-based) of the definition -> (case id, path tuple, kind)
    for case, obs in batch:
        cid = obs["id"]
        tree = {}
        mods_by_path = {tuple(m["path"]): m for m in case["input"]["mods"]}
        files = {tuple(f["rel"][:-3].split("/")): f for f in obs.get("files", []) if f["rel"].endswith(".rs") and "proj" in f}
        for mp in set(files) | set(mods_by_path):
            node = tree
            for seg in mp:
                node = node.setdefault(seg, {})
        lines.append(f"pub mod c{cid} {{")

        def emit(node, path):
            for seg, child in sorted(node.items()):
                mp = path + (seg,)
                lines.append(f"pub mod {seg} {{")
                if mp in files:
                    for name, it in (files[mp]["proj"].get("items") or {}).items():
                        if it.get("count") == 1 and it.get("deftext"):
                            lines.append("#[rustc_dump_layout(debug)]")
                            text = _VOID_RE.sub("crate::__core::c_void", it["deftext"])
                            if not target.startswith("i686"):
                                text = CC_RE.sub('extern "C"', text)   # thiscall etc. exist on 32-bit x86 only
                            lines.append(text)
                            where[len(lines)] = (cid, mp + (name,), it["k"])
                if mp in mods_by_path:
                    sup = _ext_supply(mods_by_path[mp], derives=False)
                    if sup:
                        lines.extend(sup.split("\n"))
                emit(child, mp)
                lines.append("}")
        emit(tree, ())
        lines.append("}")
    path = os.path.join(outdir, f"nocore_{target[:4]}_{idx}.rs")
    with open(path, "w") as f:
        f.write("\n".join(lines) + "\n")
    p = subprocess.run([nightly_rustc(), "--target", target, "--emit=metadata", "--crate-type", "lib",
                        "--error-format=short", "-o", "/dev/null", path],
                       stdout=subprocess.PIPE, stderr=subprocess.STDOUT, text=True)
    layouts, failures = {}, {}
    cur = None
    text = p.stdout
    # split into diagnostics
    for m in re.finditer(r"^[^\n:]+\.rs:(\d+):\d+: error(\[E\d+\])?: ([^\n]*(?:\n(?![^\n:]+\.rs:\d+:\d+: )[^\n]*)*)", text, re.M):
        ln, code, body = int(m.group(1)), m.group(2), m.group(3)
        if body.startswith("layout_of("):
            key = where.get(ln)
            if key is None:
                continue
            sz = re.search(r"size: Size\((\d+) bytes\)", body)
            al = re.search(r"abi: Align\((\d+) bytes\)", body)
            offs = []
            fm = re.search(r"fields: Arbitrary \{\s*offsets: \[([^\]]*)\]", body)
            if fm:
                offs = [int(x) for x in re.findall(r"Size\((\d+) bytes\)", fm.group(1))]
            layouts[(key[0], key[1])] = {"case": key[0], "path": list(key[1]), "k": key[2],
                                         "size": int(sz.group(1)), "align": int(al.group(1)), "offlist": offs}
        else:
            # attribute to the case owning the nearest definition line at or before ln
            owner = None
            for l2 in sorted(where):
                if l2 <= ln + 0:
                    owner = where[l2]
            if ln in where:
                owner = where[ln]
            if owner:
                failures.setdefault(owner[0], (code or "") + " " + body.split("\n")[0])
            else:
                raise ToolError("no_core crate failed outside any case:\n" + text[:2000])
    if not layouts and not failures and where:
        raise ToolError("layout dump produced nothing:\n" + text[:2000])
    return layouts, failures


def nocore(pairs, outdir, target="i686-pc-windows-msvc", batch=500, jobs=8):
    """layouts of every emitted struct/enum under the nightly compiler for `target`.
    offsets come back as a list in field declaration order ("offlist")."""
    os.makedirs(outdir, exist_ok=True)
    batches = [pairs[i:i + batch] for i in range(0, len(pairs), batch)]
    layouts, failures = {}, {}
    with ThreadPoolExecutor(max_workers=jobs) as ex:
        futs = [ex.submit(_nocore_batch, i, b, outdir, target) for i, b in enumerate(batches)]
        for f in futs:
            ls, fs = f.result()
            layouts.update(ls)
            failures.update(fs)
    return layouts, failures
