"""The language specification (spec/Parse.tla) bound to the real parser.

TLC enumerates every single-token mutation of the base modules of MC_Parse.tla and decides each with
the specification (accepted with which abstract module / rejected at which token); `pvh ptoks`
prints each sequence with random legal trivia and spellings, runs parser::parse_str and compares."""
import json, os, subprocess
from .common import *
from . import tlc

KINDS = {
    "rejected": "a module of the language (per spec/Parse.tla) is rejected by the parser",
    "different": "a module of the language parses to a different abstract module than the specification's",
    "accepted": "text that is not a module of the language is accepted",
    "position": "the rejection does not name the offending token (line/column differ from the specification's)",
    "panic": "the parser panics",
}


def conformance(tier, tag):
    """Returns (tlc stats, counters, problems) — problems: list of (kind, case, problem record)."""
    build_harness()
    d = fresh_dir("run", f"parse-{tag}-{tier}")
    cfg = "MC_Parse_q1.cfg" if tier == "quick" else "MC_Parse_t1.cfg"
    st = tlc.run_tlc("MC_Parse", cfg, d, workers=8, timeout=1500)
    if st["violation"]:
        raise ToolError("MC_Parse: the specification violates its own invariant: " + st["violation"]["text"][:2000])
    cases = os.path.join(d, "REPLAY.ndjson")
    obs = os.path.join(d, "ptoks.ndjson")
    k = 2 if tier == "quick" else 4
    p = subprocess.run([PVH, "ptoks", "--in", cases, "--out", obs, "--n", str(k), "--seed", str(seed())],
                       stdout=subprocess.PIPE, stderr=subprocess.STDOUT, text=True)
    if p.returncode != 0:
        raise ToolError("pvh ptoks failed: " + p.stdout[-2000:])
    cnt = {"mutants": 0, "prints": 0, "spec_accepts": 0, "spec_accepts_other_module": 0, "spec_rejects_at_token": 0,
           "spec_rejects_lexer": 0, "spec_rejects_at_end": 0}
    problems = []
    n_obs = 0
    for case, o in zip(tlc.read_ndjson(cases), tlc.read_ndjson(obs)):
        n_obs += 1
        if case["id"] != o["id"]:
            raise ToolError("ptoks output out of step with the cases")
        cnt["mutants"] += 1
        cnt["prints"] += o["prints"]
        n = len(case["toks"])
        if case["ok"]:
            cnt["spec_accepts"] += 1
            if not case["same"]:
                cnt["spec_accepts_other_module"] += 1
        elif case["at"] == 0:
            cnt["spec_rejects_lexer"] += 1
        elif case["at"] == n + 1:
            cnt["spec_rejects_at_end"] += 1
        else:
            cnt["spec_rejects_at_token"] += 1
        for pr in o["problems"]:
            problems.append((pr["kind"], case, pr))
    if n_obs != st["behaviours"]:
        raise ToolError(f"ptoks judged {n_obs} of {st['behaviours']} sequences")
    return st, cnt, problems


def payload(case, pr):
    return {"group": "parse", "base": case["b"], "mutation": {"op": case["op"], "i": case["i"], "a": case["a"]},
            "toks": case["toks"], "spec": {"ok": case["ok"], "at": case["at"], "gmod": case["gmod"] if case["ok"] else None},
            "text": pr["text"], "detail": pr["detail"]}
