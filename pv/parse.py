"""The language specification (spec/Parse.tla) bound to the real parser.

TLC enumerates every single-token mutation of the base modules of MC_Parse.tla and decides each with
the specification (accepted with which abstract module / rejected at which token); `pvh ptoks`
prints each sequence with random legal trivia and spellings, runs parser::parse_str and compares."""
import json, os, subprocess
from .common import *
from . import tlc

KINDS = {
    "rejected": "a module of the language (per spec/Parse.tla) is rejected by the parser",
    "different": "a module of the language parses to a different abstract module than the specification's",
    "accepted": "text that is not a module of the language is accepted",
    "position": "the rejection does not name the offending token (line/column differ from the specification's)",
    "panic": "the parser panics",
}


def conformance(tier, tag):
    """Returns (tlc stats, counters, problems) -- problems: list of (kind, case, problem record).
    Two explorations of the language of Parse.tla: MC_Parse (every single-token mutation of the base modules) and
    MC_ParseGen (every viable prefix from the empty text up to a bound, and every token that ends viability)."""
    build_harness()
    runs = [("MC_Parse", "MC_Parse_q1.cfg" if tier == "quick" else "MC_Parse_t1.cfg", "mut"),
            ("MC_ParseGen", "MC_ParseGen_q1.cfg" if tier == "quick" else "MC_ParseGen_t1.cfg", "gen")]
    if tier == "quick":
        # a second prefix exploration: shorter prefixes over the larger alphabet (pointers, generics, every item keyword)
        runs.append(("MC_ParseGen", "MC_ParseGen_q2.cfg", "gen2"))
    cnt = {"mutants": 0, "prefixes": 0, "dead_extensions": 0, "prints": 0, "spec_accepts": 0, "spec_accepts_other_module": 0,
           "spec_rejects_at_token": 0, "spec_rejects_lexer": 0, "spec_rejects_at_end": 0}
    problems = []
    total = None
    for module, cfg, name in runs:
        d = fresh_dir("run", f"parse-{tag}-{name}-{tier}")
        st = tlc.run_tlc(module, cfg, d, workers=8, timeout=2400)
        if st["violation"]:
            raise ToolError(f"{module}: the specification violates its own invariant: " + st["violation"]["text"][:2000])
        cases = os.path.join(d, "REPLAY.ndjson")
        obs = os.path.join(d, "ptoks.ndjson")
        k = (1 if name == "gen2" else 2) if tier == "quick" else (4 if name == "mut" else 1)
        p = subprocess.run([PVH, "ptoks", "--in", cases, "--out", obs, "--n", str(k), "--seed", str(seed())],
                           stdout=subprocess.PIPE, stderr=subprocess.STDOUT, text=True)
        if p.returncode != 0:
            raise ToolError("pvh ptoks failed: " + p.stdout[-2000:])
        n_obs = 0
        for case, o in zip(tlc.read_ndjson(cases), tlc.read_ndjson(obs)):
            n_obs += 1
            if case["id"] != o["id"]:
                raise ToolError("ptoks output out of step with the cases")
            if name == "mut":
                cnt["mutants"] += 1
            elif case["op"] == "prefix":
                cnt["prefixes"] += 1
            else:
                cnt["dead_extensions"] += 1
            cnt["prints"] += o["prints"]
            n = len(case["toks"])
            if case["ok"]:
                cnt["spec_accepts"] += 1
                if name == "mut" and not case["same"]:
                    cnt["spec_accepts_other_module"] += 1
            elif case["at"] == 0:
                cnt["spec_rejects_lexer"] += 1
            elif case["at"] == n + 1:
                cnt["spec_rejects_at_end"] += 1
            else:
                cnt["spec_rejects_at_token"] += 1
            for pr in o["problems"]:
                if len(problems) < 200:
                    problems.append((pr["kind"], case, pr))
        if n_obs != st["behaviours"]:
            raise ToolError(f"ptoks judged {n_obs} of {st['behaviours']} sequences")
        if total is None:
            total = dict(st)
            total["cfg"] = [cfg]
        else:
            for key in ("generated", "distinct", "behaviours", "wall_s"):
                total[key] += st[key]
            total["depth"] = max(total["depth"], st["depth"])
            total["cfg"].append(cfg)
            total["module"] += " + " + st["module"]
            total["cmd"] += " ; " + st["cmd"]
    return total, cnt, problems


def payload(case, pr):
    return {"group": case.get("group", "parse"), "base": case["b"], "mutation": {"op": case["op"], "i": case["i"], "a": case["a"]},
            "toks": case["toks"], "spec": {"ok": case["ok"], "at": case["at"], "gmod": case["gmod"] if case["ok"] else None},
            "text": pr["text"], "detail": pr["detail"]}
