"""Random type descriptions beyond TLC's exhaustive bounds (direction B for C01 / C02 / C03): 3-12 fields
over scalars, pointers, arrays, unknown<N> gaps, nested structs, extern types, enums, empty types,
with implicit placement, explicit addresses (mostly plausible, some overlapping / misaligned),
size / align / packed attributes and an optional vftable block.  pyxis builds them, the compilers lay
the emitted structs out, and TLC (PyxisTrace.tla) evaluates P_C01 / P_C02 / Realisable on the
recorded registry, emitted items and measured layouts."""
import random
from .common import NONE
from .randgraph import nm, cptr, mptr, arr, field, typedef, VF

SCALARS = [("u8", 1), ("u16", 2), ("u32", 4), ("u64", 8), ("i8", 1), ("i16", 2), ("i32", 4), ("i64", 8), ("f32", 4), ("f64", 8), ("bool", 1), ("u128", 16)]


def gen(rng):
    ptr = rng.choice([4, 8])
    helpers = {
        "N": (typedef("N", [field("a", nm("u16")), field("b", nm("u16"))], False), 4, 2),
        "W": (typedef("W", [field("a", nm("u64"))], False), 8, 8),
        "Z": (typedef("Z", [], False), 0, ptr),
        # a base with a vftable of its own: a derived type with a vftable block shares its pointer
        "V": (typedef("V", [field("k", nm("u32"))], True), 2 * ptr, ptr),
    }
    helpers["N"][0]["align"] = 2
    used = set()
    plain = True
    fields = []
    vft = rng.random() < 0.25
    cur = ptr if vft else 0
    maxal = ptr if vft else 1
    # now and then one or two leading base sub-objects
    bases = []
    if rng.random() < 0.25:
        bases = [rng.choice(["N", "W", "V"]) for _ in range(rng.randint(1, 2))]
        if vft and bases[0] == "V":
            cur = 0
    nf = rng.randint(1, 12)
    for i in range(nf):
        r = rng.random()
        if i < len(bases):
            h = bases[i]
            used.add(h)
            ty, sz, al = nm(h), helpers[h][1], helpers[h][2]
            plain = False
        elif r < 0.45:
            n, sz = rng.choice(SCALARS)
            ty, al = nm(n), sz
        elif r < 0.6:
            ty, sz, al = (cptr(nm("u8")) if rng.random() < 0.5 else mptr(nm("T"))), ptr, ptr
        elif r < 0.72:
            n, esz = rng.choice(SCALARS[:8])
            k = rng.randint(0, 4)
            ty, sz, al = arr(nm(n), k), esz * k, esz
        elif r < 0.8:
            k = rng.choice([0, 1, 2, 3, 4, 8])
            ty, sz, al = {"k": "unk", "len": k}, k, 1
        elif r < 0.9:
            h = rng.choice(["N", "W", "Z"])
            used.add(h)
            ty, sz, al = nm(h), helpers[h][1], helpers[h][2]
            plain = False
        elif r < 0.95:
            used.add("E")
            ty, sz, al = nm("E"), 2, 2
            plain = False
        else:
            used.add("X")
            ty, sz, al = nm("X"), 8, 4
            plain = False
        p = rng.random()
        addr = NONE
        if p < 0.55:
            # implicit; make it aligned most of the time by inserting a gap field first
            if cur % al and rng.random() < 0.85:
                gap = al - cur % al
                fields.append(field("_", {"k": "unk", "len": gap}))
                cur += gap
        elif p < 0.9:
            addr = (cur + al - 1) // al * al + rng.choice([0, 0, 0, al, 2 * al, 8])
            cur = addr
        else:
            addr = rng.randint(0, max(cur + 8, 8))
            cur = max(cur, addr)
        name = "_" if (rng.random() < 0.08 and ty.get("k") != "nm" and i >= len(bases)) else f"f{i}"
        fields.append(field(name, ty, base=i < len(bases), addr=addr))
        cur = (addr if addr != NONE else cur) + sz
        if sz or ty.get("k") not in ("arr", "unk"):
            maxal = max(maxal, al)
    t = typedef("T", fields, vft)
    if vft and rng.random() < 0.08:
        # a vftable block that is not the first statement (rejected today)
        t["vft"]["pos"] = rng.randint(1, len(fields))
        plain = False
    q = rng.random()
    natural_al = max(maxal, ptr) if len(fields) + vft > 1 else maxal
    if q < 0.5:
        pass
    elif q < 0.8:
        t["align"] = max(maxal, rng.choice([1, 2, 4, 8, 16]))
        natural_al = t["align"]
    elif q < 0.9:
        t["align"] = rng.choice([1, 2, 3, 4, 8, 16, 32])
        natural_al = t["align"]
    else:
        t["packed"] = True
        natural_al = 1
    q = rng.random()
    if q < 0.35:
        t["size"] = (cur + natural_al - 1) // natural_al * natural_al
    elif q < 0.5:
        t["size"] = cur + rng.choice([0, 1, 4, 8, -4])
        if t["size"] < 0:
            t["size"] = 0
    defs = [helpers[h][0] for h in ("N", "W", "Z", "V") if h in used]
    if "E" in used:
        defs.append({"k": "enum", "name": "E", "vis": "pub", "doc": [], "base": nm("u16"),
                     "vars": [{"name": "A", "val": {"a": "none", "d": 0}, "dflt": False}, {"name": "B", "val": {"a": "none", "d": 0}, "dflt": False}],
                     "singleton": NONE, "copyable": False, "cloneable": False, "defaultable": False})
    rng.shuffle(defs)
    defs.append(t)
    m = {"path": ["m"], "doc": [], "uses": [], "exts": [{"name": "X", "size": 8, "align": 4}] if "X" in used else [],
         "evals": [], "defs": defs, "impls": [], "backs": []}
    # a packed type that embeds another emitted struct is known finding K05 territory: keep it out
    if t["packed"] and (used & {"N", "W", "Z", "X", "V"}):
        t["packed"] = False
    return {"ptr": ptr, "mods": [m]}, plain and not vft or plain


def cases(seed, n):
    rng = random.Random(seed * 7919 + 13)
    out = []
    for i in range(n):
        inp, plain = gen(rng)
        out.append({"id": i + 1, "group": "layout-random", "input": inp, "order": [], "sched": [], "plain": plain})
    return out
