"""C09 (determinism over schedules / module orders / processes) and C10 (resolution succeeds
exactly when names exist and by-value embedding is acyclic), on MC_Graph."""
import json, os, time, random, collections
from .common import *
from . import tlc, harness
from .layout import Pipeline, payload
from .result import Result

CFG = {"quick": ["MC_Graph_q1.cfg", "MC_Graph_q2.cfg", "MC_Graph_q3.cfg", "MC_Graph_q4.cfg", "MC_Graph_q5.cfg"], "thorough": ["MC_Graph_t1.cfg", "MC_Graph_t2.cfg", "MC_Graph_t3.cfg", "MC_Graph_q5.cfg"]}


def input_key(case):
    """the input SET: the order in which the modules are listed / added is not part of it"""
    inp = dict(case["input"])
    inp["mods"] = sorted(inp["mods"], key=lambda m: m["path"])
    return sha(json.dumps(inp, sort_keys=True))


def outcome_sig(obs):
    """what C09 compares: Ok/Err and the bytes of every output file"""
    if obs.get("accepted"):
        return ("ok", tuple((f["rel"], f["hash"]) for f in obs.get("files", [])))
    return ("err",)


def strip_case_prefix(names):
    out = []
    for n in names:
        segs = n.split("::")
        if segs and segs[0].startswith("c") and segs[0][1:].isdigit():
            segs = segs[1:]
        out.append("::".join(segs))
    return out


def natural_runs(pl, res, reps, tag):
    """the distinct inputs once more without imposing a schedule (hash order of the process)"""
    seen, lines = set(), []
    for case in tlc.read_ndjson(pl.cases_path):
        k = input_key(case)
        if k in seen:
            continue
        seen.add(k)
        lines.append(json.dumps({"id": case["id"], "input": case["input"], "order": case["order"]}))
    path = os.path.join(pl.dir, f"natural_{tag}.ndjson")
    with open(path, "w") as f:
        f.write("\n".join(lines) + "\n")
    # every second run takes the inputs in reverse order: each build is then preceded by other builds in its process
    # (C09: the result does not depend on how often, or after what, the build is repeated in one process)
    rpath = os.path.join(pl.dir, f"natural_{tag}_rev.ndjson")
    with open(rpath, "w") as f:
        f.write("\n".join(reversed(lines)) + "\n")
    outs = []
    for r in range(reps):
        obs_path, _ = harness.replay(rpath if r % 2 else path, os.path.join(pl.dir, f"nat_{tag}_{r}"),
                                     ["--emit-dir", os.path.join(pl.dir, f"emit_nat_{tag}_{r}")], jobs=8)
        outs.append({o["id"]: o for o in tlc.read_ndjson(obs_path)})
    return outs


class Group:
    """the behaviours of one input set, kept compactly (thorough tiers replay millions of them): the distinct
    outcome signatures with their counts, the first behaviour, and the first one that differs from it"""
    __slots__ = ("sigs", "first", "alt", "n", "scheds")

    def __init__(self):
        self.sigs = collections.Counter()
        self.first = None
        self.alt = None
        self.n = 0
        self.scheds = []

    def add(self, case, obs, kfc):
        sig = outcome_sig(obs)
        if self.first is not None and (self.alt is not None or sig == self.first[3]):
            self.sigs[sig] += 1
            self.n += 1
            if len(self.scheds) < 6:
                self.scheds.append(case["sched"])
            return
        # kept for the report: without the registry and the item projections
        obs = {k: ([{"rel": f["rel"], "hash": f["hash"]} for f in v] if k == "files" else v)
               for k, v in obs.items() if k not in ("reg", "events")}
        self.sigs[sig] += 1
        self.n += 1
        if len(self.scheds) < 6:
            self.scheds.append(case["sched"])
        if self.first is None:
            self.first = (case, obs, kfc, sig)
        elif self.alt is None and sig != self.first[3]:
            self.alt = (case, obs, kfc, sig)


def new_groups():
    return collections.defaultdict(Group)


def c09_groups(pl, res, groups, tier, cov, tag, reps=None):
    """all behaviours of one input (imposed schedules, module orders, natural hash order in fresh
    processes) must agree on Ok/Err and on the bytes of every output file"""
    n_checked = 0
    nat = natural_runs(pl, res, reps or (2 if tier == "quick" else 4), tag)
    for key, g in groups.items():
        sigs = collections.Counter(g.sigs)
        case0, obs0, kfc, _ = g.first
        n_checked += g.n
        nat_diff = None
        for run in nat:
            o = run.get(case0["id"])
            if o is not None:
                if outcome_sig(o) not in sigs:
                    nat_diff = o
                sigs[outcome_sig(o)] += 1
                n_checked += 1
        if len(sigs) > 1:
            kinds = sorted({s[0] for s in sigs})
            b = g.alt
            detail = {"schedules": g.n, "distinct_outcomes": len(sigs), "kinds": kinds,
                      "schedule_a": case0["sched"], "outcome_a": obs0["outcome"],
                      "schedule_b": b[0]["sched"] if b else "natural hash order in a fresh process",
                      "outcome_b": b[1]["outcome"] if b else (nat_diff or {}).get("outcome")}
            res.violation(f"the same input gives {len(sigs)} different results over {g.n} imposed schedules and "
                          f"{len(nat)} natural-order process runs ({'Ok and Err' if len(kinds) > 1 else 'different output bytes'})",
                          payload(case0, obs0, detail), kfc)
        if len(res.samples) < 5 and g.n > 2:
            res.sample({"input": case0["input"], "schedules_imposed": g.scheds,
                        "result": obs0["outcome"], "files": obs0.get("files") and [f["rel"] for f in obs0["files"]]})
    cov["inputs_" + tag] = len(groups)
    cov["natural_order_process_runs"] = len(nat)
    return n_checked


BUILTINS = {"void", "bool", "u8", "u16", "u32", "u64", "u128", "i8", "i16", "i32", "i64", "i128", "f32", "f64"}


def _inner_name(t):
    """the type name at the bottom of a declared field type, None for gaps and zero-length arrays (dropped by design)"""
    while t.get("k") in ("arr", "cptr", "mptr"):
        if t["k"] == "arr" and t.get("len") == 0:
            return None
        t = t["t"]
    return t.get("n") if t.get("k") == "nm" else None


def _inner_path(t):
    while isinstance(t, dict) and t.get("k") in ("arr", "cptr", "mptr"):
        t = t["t"]
    return tuple(t["p"]) if isinstance(t, dict) and t.get("k") == "raw" and len(t.get("p", [])) > 1 else None


def dropped_references(case, obs):
    """C10 "never succeeds with ... a reference dropped": every field (named or `_`) that names a user type defined exactly
    once in the input shows up in the emitted struct as a field whose type mentions that definition"""
    where = collections.defaultdict(list)
    for m in case["input"]["mods"]:
        for d in m["defs"]:
            where[d["name"]].append(tuple(m["path"] + [d["name"]]))
        for e in m["exts"]:
            where[e["name"]].append(tuple(m["path"] + [e["name"]]))
    files = {tuple(f["rel"][:-3].split("/")): f.get("proj") for f in obs.get("files", [])}
    out = []
    for m in case["input"]["mods"]:
        proj = files.get(tuple(m["path"]))
        if proj is None:
            continue
        for d in m["defs"]:
            if d["k"] != "type":
                continue
            it = proj["items"].get(d["name"])
            if not it or it.get("k") != "struct":
                continue
            want = collections.Counter()
            for f in d["fields"]:
                n = _inner_name(f["ty"])
                if n and n not in BUILTINS and len(where.get(n, [])) == 1:
                    want[where[n][0]] += 1
            have = collections.Counter(p for p in (_inner_path(f["ty"]) for f in it.get("fields", [])) if p)
            for pth, k in want.items():
                if have.get(pth, 0) < k:
                    out.append(f"{'::'.join(m['path'] + [d['name']])} declares {k} field(s) of {'::'.join(pth)}, the emitted struct has {have.get(pth, 0)}")
    return out


def declared_missing(case, obs):
    """C10 "nothing left out": every declared definition and extern value of an accepted build is in the output"""
    files = {tuple(f["rel"][:-3].split("/")): f.get("proj") for f in obs.get("files", [])}
    missing = []
    for m in case["input"]["mods"]:
        proj = files.get(tuple(m["path"]))
        if proj is None:
            missing.append("/".join(m["path"]) + ".rs")
            continue
        for d in m["defs"]:
            it = proj["items"].get(d["name"])
            if it is None or it.get("count") != 1 or it.get("k") not in ("struct", "enum"):
                missing.append("::".join(m["path"] + [d["name"]]))
        have = {e["name"] for e in proj["evals"]}
        for e in m["evals"]:
            if e["name"] not in have:
                missing.append("::".join(m["path"]) + "::get_" + e["name"])
    return missing


def rand_graphs(pid, tier, pl, res, cov):
    from . import randgraph, trace
    n = 300 if tier == "quick" else 6000
    cs = randgraph.cases(seed(), n)
    path = os.path.join(pl.dir, "rand.ndjson")
    with open(path, "w") as f:
        for c in cs:
            f.write(json.dumps(c) + "\n")
    runs = []
    for r in range(3 if pid == "C09" else 1):
        obs_path, _ = harness.replay(path, os.path.join(pl.dir, f"rand_rp{r}"),
                                     ["--emit-dir", os.path.join(pl.dir, f"rand_emit{r}"), "--style-seed", str(seed()), "--events"]
                                     + (["--project"] if r == 0 else []), jobs=8)
        runs.append({o["id"]: o for o in tlc.read_ndjson(obs_path)})
    n_eval = 0
    # step-level trace validation of the loop (LoopTrace.tla): every logged step of every run must be the
    # specification's step from the logged state; a rejected run is drift, and the rest is still validated
    todo_runs = [(c, runs[0][c["id"]]) for c in cs]
    rejected, events = [], 0
    for _ in range(25):
        ok, info = trace.validate_loop(todo_runs, os.path.join(pl.dir, "rand_loop"))
        events = max(events, info["events"])
        if ok:
            break
        rejected.append({k: info.get(k) for k in ("case", "event", "record")})
        todo_runs = [(c, o) for c, o in todo_runs if c["id"] != info.get("case")]
    cov["loop_trace_validation"] = {"runs": len(cs), "events": events, "rejected_runs": len(rejected)}
    if rejected:
        cov["loop_trace_validation"]["first_rejections"] = rejected[:3]
        res.add_drift([f"loop trace of random run {r['case']} rejected at a `{r['event']}` record" for r in rejected[:4]], None)
    cov["traces_validated_against_impl"] += len(cs) - len(rejected)
    if pid == "C09":
        for c in cs:
            sigs = {outcome_sig(run[c["id"]]) for run in runs}
            n_eval += len(runs)
            if len(sigs) > 1:
                res.violation(f"a random graph gives {len(sigs)} different results over {len(runs)} natural-order process runs",
                              payload(dict(c, group="graph-random"), runs[0][c["id"]],
                                      {"outcomes": [run[c["id"]]["outcome"] for run in runs]}), None)
    else:
        recs = [trace.graph_record(c, runs[0][c["id"]]) for c in cs]
        verdicts, tst = trace.evaluate(recs, os.path.join(pl.dir, "rand_trace"))
        kf_ids = tst.pop("kf_ids", set())
        cov["random_graph_trace_validation"] = tst
        for c in cs:
            n_eval += 1
            if pid in verdicts.get(c["id"], set()):
                o = runs[0][c["id"]]
                res.violation(f"random graph: build {o['outcome']} ({str(o.get('msg'))[:80]}) but the declarative oracle evaluated by TLC "
                              f"on the recorded input disagrees (verdict / list of unresolvable types)",
                              payload(dict(c, group="graph-random"), o), "C10:generated-name" if c["id"] in kf_ids else None)
        for c in cs:
            o = runs[0][c["id"]]
            if o["accepted"]:
                for msg in dropped_references(c, o)[:2]:
                    res.violation("random graph: a reference is dropped: " + msg, payload(dict(c, group="graph-random"), o),
                                  "C10:generated-name" if c["id"] in kf_ids else None)
                miss = declared_missing(c, o)
                if miss:
                    res.violation(f"random graph: the build succeeded but {miss[:3]} is missing from the output",
                                  payload(dict(c, group="graph-random"), o), "C10:generated-name" if c["id"] in kf_ids else None)
        acc = sum(1 for c in cs if runs[0][c["id"]]["accepted"])
        cov["random_graphs"] = {"n": len(cs), "accepted": acc, "nonterm": sum(1 for c in cs if runs[0][c["id"]].get("class") == "nonterm")}
    cov["traces_validated_against_impl"] += n_eval
    return n_eval


def run_graph(pid, tier):
    res = Result(pid, tier)
    pl = Pipeline(tier, module="MC_Graph", cfgs=CFG, name="graph",
                  replay_flags=["--emit-dir", os.path.join(WORK, "run", f"graph-{tier}", "emit"), "--sched", "--project"])
    cov = pl.base_coverage()
    groups = new_groups()
    n_checked = n_model = sched_miss = 0
    for case, obs in pl.pairs():
        cid = case["id"]
        oracle = case["oracle"]
        kf = [k for k in oracle.get("kf", []) if k.startswith(pid + ":")]
        kf_class = kf[0] if kf else None
        if pid in case.get("pviol", []):
            n_model += 1
        if obs.get("sched_misses"):
            sched_miss += 1
        d = []
        if obs["accepted"] != case["accepted"]:
            d.append(f"verdict: code {obs['outcome']} vs mirror {'ok' if case['accepted'] else 'err:' + case['err']} under the imposed schedule")
        res.add_drift(d, cid)
        crashed = obs["outcome"] in ("panic", "hang", "abort")
        if pid == "C09":
            groups[input_key(case)].add(case, obs, kf_class)
            continue
        # ---------------- C10
        n_checked += 1
        name_err = obs.get("class") in ("nonterm", "unresolved")
        if (obs["accepted"] and not oracle["resolvable"]) or (not obs["accepted"] and name_err and oracle["resolvable"]):
            res.violation(
                f"build {'succeeded' if obs['accepted'] else 'failed (' + obs['outcome'] + ': ' + str(obs.get('msg'))[:80] + ')'} "
                f"but names defined / by-value acyclic is {oracle['resolvable']}",
                payload(case, obs), kf_class)
            continue
        if (not obs["accepted"] and not crashed and obs.get("class") != "nonterm" and case["err"] == "nonterm"
                and oracle["fieldsOnly"] and not oracle["resolvable"] and not oracle.get("kf")):
            # the only thing wrong is a name used in fields (undefined, or a by-value cycle): the error has to be the one that
            # lists the types that could not be resolved
            res.violation(f"the build fails with {obs['outcome']}: {str(obs.get('msg'))[:100]!r}, which does not list the types that "
                          f"could not be resolved ({sorted('::'.join(p) for p in oracle['unresolvable'])})",
                          payload(case, obs), kf_class)
            continue
        if not obs["accepted"] and obs.get("class") == "nonterm" and oracle["fieldsOnly"]:
            got = sorted(strip_case_prefix(obs.get("nonterm", [])))
            want = sorted("::".join(p) for p in oracle["unresolvable"])
            if got != want:
                res.violation(f"non-termination error lists {got}, the unresolvable types are {want}",
                              payload(case, obs), kf_class)
        if obs["accepted"]:
            for msg in dropped_references(case, obs)[:2]:
                res.violation("a reference is dropped: " + msg, payload(case, obs), kf_class)
            # nothing left out: every declared item resolved, every declared function with its full signature
            reg = {tuple(e["path"]): e for e in obs.get("reg", [])}
            files = {tuple(f["rel"][:-3].split("/")): f.get("proj") for f in obs.get("files", [])}
            for m in case["input"]["mods"]:
                for dfn in m["defs"]:
                    p = tuple(m["path"] + [dfn["name"]])
                    if p not in reg or reg[p]["st"] != "R":
                        res.violation(f"build succeeded but {'::'.join(p)} is not resolved", payload(case, obs), kf_class)
                    proj = files.get(tuple(m["path"]))
                    if proj is None or dfn["name"] not in proj["items"] or proj["items"][dfn["name"]].get("count") != 1:
                        res.violation(f"build succeeded but {'::'.join(p)} is not emitted exactly once", payload(case, obs), kf_class)
                for im in m["impls"]:
                    proj = files.get(tuple(m["path"]))
                    meths = {x["name"]: x for x in (proj["items"].get(im["name"], {}).get("methods", []) if proj else [])}
                    for fn in im["funcs"]:
                        if fn["name"].startswith("_"):
                            continue
                        em = meths.get(fn["name"])
                        if em is None:
                            res.violation(f"declared function {im['name']}::{fn['name']} is missing from the output", payload(case, obs), kf_class)
                            continue
                        if (fn["ret"]["k"] == "none") != (em["ret"]["k"] == "none") or len(fn["args"]) != len(em["args"]):
                            res.violation(f"function {im['name']}::{fn['name']} emitted with a different signature "
                                          f"(declared return {fn['ret']}, emitted {em['ret']})", payload(case, obs), kf_class)
        if cid % 4001 == 0:
            res.sample({"input": case["input"], "schedule": case["sched"], "resolvable": oracle["resolvable"],
                        "code": obs["outcome"], "nonterm": obs.get("nonterm")})

    if pid == "C09":
        n_checked += c09_groups(pl, res, groups, tier, cov, "graph")
        # a second input family: ambiguous names (several definitions of one short name in scope)
        pl2 = Pipeline(tier, module="MC_Scope", cfgs={"quick": ["MC_Scope_q2.cfg", "MC_Scope_q3.cfg"], "thorough": ["MC_Scope_q1.cfg", "MC_Scope_q2.cfg"]},
                       name="graph2", replay_flags=["--emit-dir", os.path.join(WORK, "run", f"graph2-{tier}", "emit"), "--sched"])
        groups2 = new_groups()
        for case, obs in pl2.pairs():
            groups2[input_key(case)].add(case, obs, None)
        n_checked += c09_groups(pl2, res, groups2, tier, cov, "scope")
        bc = pl2.base_coverage()
        for k in ("states", "transitions", "traces_validated_against_impl"):
            cov[k] += bc[k]
        cov["checker_cmd"] += " ; " + bc["checker_cmd"]
        # diamonds: the emitted text lists the competing paths of a repeated base (hash-ordered containers must not leak into it)
        pl4 = Pipeline(tier, module="MC_Inherit", cfgs={"quick": ["MC_Inherit_q3.cfg"], "thorough": ["MC_Inherit_q3.cfg"]}, name="graph4",
                       replay_flags=["--emit-dir", os.path.join(WORK, "run", f"graph4-{tier}", "emit"), "--sched"])
        groups4 = new_groups()
        for case, obs in pl4.pairs():
            groups4[input_key(case)].add(case, obs, None)
        n_checked += c09_groups(pl4, res, groups4, tier, cov, "diamond", reps=6)
        # a third family through the file system: the result must not depend on what an earlier build
        # (here: the same tree at the other pointer width) left in the output directory
        d3 = os.path.join(WORK, "run", f"graph3-{tier}")
        pl3 = Pipeline(tier, module="MC_Files", cfgs={"quick": ["MC_Files_q1.cfg"], "thorough": ["MC_Files_q1.cfg"]}, name="graph3",
                       replay_flags=["--emit-dir", os.path.join(d3, "emit"), "--via-fs"])
        dirty_obs, _ = harness.replay(pl3.cases_path, os.path.join(pl3.dir, "dirty"),
                                      ["--emit-dir", os.path.join(pl3.dir, "emit_dirty"), "--via-fs", "--dirty-out", "--style-seed", str(seed())])
        for (case, clean), dirty in zip(pl3.pairs(), tlc.read_ndjson(dirty_obs)):
            n_checked += 1
            if outcome_sig(clean) != outcome_sig(dirty):
                res.violation("the result of pyxis::build depends on what an earlier build left in the output directory",
                              payload(case, clean, {"clean": clean.get("files"), "after_other_build": dirty.get("files")}))
        # ... nor on how the input directory is spelled or which entry point is used (pyxis::build with an absolute path,
        # `./input`, `input/`, or pyxis::build_script reading ./types with the pointer width from the cargo environment)
        by_set = collections.defaultdict(list)
        # ... nor on the run: the same trees twice more in fresh processes (a failing module must fail every time)
        again = []
        for r in range(2):
            op, _ = harness.replay(pl3.cases_path, os.path.join(pl3.dir, f"again{r}"),
                                   ["--emit-dir", os.path.join(pl3.dir, f"emit_again{r}"), "--via-fs", "--style-seed", str(seed())])
            again.append({o["id"]: o for o in tlc.read_ndjson(op)})
        for case, clean in pl3.pairs():
            for run in again:
                o = run.get(case["id"])
                if o is not None and outcome_sig(o) != outcome_sig(clean):
                    n_checked += 1
                    res.violation("pyxis::build gives different results for the same tree in different processes",
                                  payload(case, clean, {"first": clean.get("outcome"), "again": o.get("outcome"),
                                                        "files_first": clean.get("files") and [(f["rel"], f["hash"]) for f in clean["files"]],
                                                        "files_again": o.get("files") and [(f["rel"], f["hash"]) for f in o["files"]]}))
                    break
        for case, clean in pl3.pairs():
            inp = {k: v for k, v in case["input"].items() if k != "indir"}
            inp["mods"] = sorted(inp["mods"], key=lambda m: m["path"])
            by_set[sha(json.dumps(inp, sort_keys=True))].append((case, clean))
        for lst in by_set.values():
            sigs = {outcome_sig(o) for _, o in lst}
            n_checked += len(lst)
            if len(sigs) > 1:
                a = lst[0]
                b = next(x for x in lst if outcome_sig(x[1]) != outcome_sig(a[1]))
                res.violation(f"the same files and pointer width give different results through input directory style "
                              f"`{a[0]['input']['indir']}` and `{b[0]['input']['indir']}`",
                              payload(a[0], a[1], {"style_a": a[0]["input"]["indir"], "files_a": a[1].get("files") and [(f["rel"], f["hash"]) for f in a[1]["files"]],
                                                   "style_b": b[0]["input"]["indir"], "outcome_b": b[1].get("outcome"),
                                                   "files_b": b[1].get("files") and [(f["rel"], f["hash"]) for f in b[1]["files"]]}))
        cov["inputs_files_dirty_outdir"] = pl3.total
    # ---- direction B: random graphs beyond the exhaustive bounds, natural hash order, TLC as oracle
    n_rand = rand_graphs(pid, tier, pl, res, cov)
    n_checked += n_rand
    if sched_miss:
        res.notes.append(f"{sched_miss} behaviours: the unresolved set seen by the code differed from the mirror's in some pass "
                         f"(the hook then falls back to sorted order)")
    cov.update({"evaluations": n_checked, "distinct_nontrivial": (cov.get("inputs_graph", 0) + cov.get("inputs_scope", 0)) if pid == "C09" else n_checked,
                "rule": "every schedule TLC finds for every dependency graph of MC_Graph is imposed on pyxis through the "
                        "cfg(pyxis_verif) hook; C09 compares outcome and output bytes across the schedules of one input "
                        "(and natural hash order in fresh processes); C10 compares the verdict with the declarative oracle",
                "model_level_violations": n_model})
    res.coverage = cov
    res.assumptions = ["the schedule hook returns a permutation that is a pure function of the unresolved set",
                       "error messages are classified structurally; only the list inside the non-termination error is read"]
    return res.finish()
