"""Random dependency graphs beyond TLC's exhaustive bounds (direction B for C09 / C10): up to 12 types
in up to 4 modules, by-value chains and cycles, pointer cycles, arrays (also of length 0), bases,
vftable blocks, impl functions mentioning other types, enums, undefined names; the real pyxis runs
them in natural hash order in several fresh processes, and TLC evaluates the declarative oracle
(Resolvable, UnresolvablePaths) of PyxisTrace.tla on the recorded input and verdict."""
import random
from .common import NONE

TN = {"k": "none"}


def nm(n): return {"k": "nm", "n": n}
def cptr(t): return {"k": "cptr", "t": t}
def mptr(t): return {"k": "mptr", "t": t}
def arr(t, n): return {"k": "arr", "t": t, "len": n}


def field(name, ty, base=False, addr=NONE):
    return {"name": name, "vis": "pub", "doc": [], "ty": ty, "addr": addr, "base": base}


def func(name, args, ret, addr=NONE):
    return {"name": name, "vis": "pub", "doc": [], "args": args, "ret": ret, "addr": addr, "index": NONE, "cc": ""}


VF = func("vf", [{"k": "mself", "name": "", "ty": TN}], TN)


def typedef(name, fields, vft):
    return {"k": "type", "name": name, "vis": "pub", "doc": [], "size": NONE, "align": NONE, "singleton": NONE,
            "packed": False, "copyable": False, "cloneable": False, "defaultable": False,
            "vft": {"has": vft, "pos": 0, "size": NONE, "funcs": [VF] if vft else [], "doc": []}, "fields": fields}


def gen(rng, allow_generated):
    n_mods = rng.randint(1, 4)
    n_types = rng.randint(4, 12)
    names = [f"T{i}" for i in range(n_types)]
    # now and then two types whose names differ only in case (they sort next to each other)
    if n_types >= 2 and rng.random() < 0.3:
        names[1] = names[0].lower() if rng.random() < 0.5 else names[0][0] + "x"
        if names[1] == names[0]:
            names[1] = "t0"
    home = {n: rng.randrange(n_mods) for n in names}
    has_vft = {n: rng.random() < 0.3 for n in names}
    undefined = rng.random() < 0.15
    mods = [{"path": [f"m{i}"], "doc": [], "uses": [[f"m{j}"] for j in range(n_mods) if j != i], "exts": [], "evals": [],
             "defs": [], "impls": [], "backs": []} for i in range(n_mods)]
    rng.shuffle(names)
    # a mostly acyclic by-value order with occasional back edges
    order = list(names)
    for idx, n in enumerate(order):
        fields = []
        nf = rng.randint(0, 3)
        for k in range(nf):
            kind = rng.choice(["leaf", "val", "val", "arr", "arr0", "ptr", "ptr", "vptr" if allow_generated else "ptr", "undef" if undefined else "ptr"])
            back = rng.random() < 0.12
            pool = order[:idx] if (not back and idx > 0) else order
            tgt = rng.choice(pool)
            # an anonymous field is still a field of the type it names
            fname = "_" if (kind in ("val", "arr") and rng.random() < 0.15) else f"f{k}"
            if kind == "leaf":
                fields.append(field(fname, cptr(nm("u8"))))
            elif kind == "val":
                fields.append(field(fname, nm(tgt)))
            elif kind == "arr":
                fields.append(field(fname, arr(nm(tgt), rng.randint(1, 3))))
            elif kind == "arr0":
                fields.append(field(fname, arr(nm(tgt), 0)))
            elif kind == "ptr":
                fields.append(field(fname, mptr(nm(rng.choice(order)))))
            elif kind == "vptr":
                t2 = rng.choice(order)
                fields.append(field(fname, cptr(nm(t2 + "Vftable"))))
            else:
                fields.append(field(fname, cptr(nm("Nowhere")) if rng.random() < 0.5 else nm("Nowhere")))
        # a base (first field) now and then; both tables are the single function `vf`, hence compatible
        if idx > 0 and rng.random() < 0.2:
            fields.insert(0, field("base", nm(rng.choice(order[:idx])), base=True))
        fields.append(field("tail", cptr(nm("u8"))))
        d = typedef(n, fields, has_vft[n])
        m = mods[home[n]]
        m["defs"].append(d)
        if rng.random() < 0.25:
            t2 = rng.choice(order)
            kind = rng.choice(["param", "ret", "undef" if undefined else "param"])
            if kind == "param":
                f = func("g", [{"k": "cself", "name": "", "ty": TN}, {"k": "named", "name": "x", "ty": cptr(nm(t2))}], TN, 0x50000)
            elif kind == "ret":
                f = func("g", [{"k": "cself", "name": "", "ty": TN}], mptr(nm(t2)), 0x50000)
            else:
                f = func("g", [{"k": "cself", "name": "", "ty": TN}], mptr(nm("Nowhere")), 0x50000)
            m["impls"].append({"name": n, "funcs": [f]})
    # enums: base a built-in, or (rejected since fix F22: no integer type) an extern type of another module
    if rng.random() < 0.5:
        k = rng.randrange(n_mods)
        base = rng.choice(["u32", "u8", "i16", "u64"])
        if n_mods > 1 and rng.random() < 0.12:
            other = (k + 1) % n_mods
            mods[other]["exts"].append({"name": "DWORD", "size": 4, "align": 4})
            base = "DWORD"
        elif undefined and rng.random() < 0.3:
            base = "Nowhere"
        mods[k]["defs"].append({"k": "enum", "name": "Kind", "vis": "pub", "doc": [], "base": nm(base),
                                "vars": [{"name": "A", "val": {"a": "none", "d": 0}, "dflt": False},
                                         {"name": "B", "val": {"a": "0", "d": 5}, "dflt": False}],
                                "singleton": NONE, "copyable": False, "cloneable": False, "defaultable": False})
        tds = [d for m in mods for d in m["defs"] if d["k"] == "type"]
        if tds:
            rng.choice(tds)["fields"].insert(0, field("kind_ptr", mptr(nm("Kind"))))
    for m in mods:
        rng.shuffle(m["defs"])
    # a module that holds nothing but extern values
    if rng.random() < 0.3:
        mods.append({"path": ["globals"], "doc": [], "uses": [[f"m{j}"] for j in range(n_mods)], "exts": [],
                     "evals": [{"name": "root", "vis": "pub", "ty": mptr(nm(rng.choice(order))), "addr": 0x80000},
                               {"name": "count", "vis": "priv", "ty": nm("u32"), "addr": 0x80010}],
                     "defs": [], "impls": [], "backs": []})
    if rng.random() < 0.2:
        mods[0]["evals"].append({"name": "gv", "vis": "pub", "ty": mptr(nm(rng.choice(order))), "addr": 0x70000})
    # an extern value typed by a generated vftable struct (extern values resolve after all types: always fine)
    owners = [(m, d) for m in mods for d in m["defs"] if d["k"] == "type" and d["vft"]["has"]]
    if owners and rng.random() < 0.35:
        m, d = rng.choice(owners)
        m["evals"].append({"name": "table", "vis": "pub", "ty": cptr(nm(d["name"] + "Vftable")), "addr": 0x90000})
    return {"ptr": rng.choice([4, 8]), "mods": mods}


def cases(seed, n, allow_generated=False):
    rng = random.Random(seed)
    return [{"id": i + 1, "input": gen(rng, allow_generated), "order": [], "sched": []} for i in range(n)]
