"""Shared plumbing for the pyxis verification driver."""
import json, os, subprocess, sys, time, shutil, hashlib

ROOT = os.path.dirname(os.path.dirname(os.path.abspath(__file__)))
SPEC = os.path.join(ROOT, "spec")
WORK = os.path.join(ROOT, "work")
HARNESS = os.path.join(ROOT, "harness")
PVH = os.path.join(HARNESS, "target", "debug", "pvh")
EVID = os.path.join(ROOT, "evidence")
REPLAYS = os.path.join(ROOT, "replays")
NONE = -999999

EXIT_OK, EXIT_VIOLATION, EXIT_TOOL = 0, 1, 2


class ToolError(Exception):
    pass


def log(*a):
    print(*a, file=sys.stderr, flush=True)


def seed():
    try:
        return int(os.environ.get("VERIF_SEED", "1"))
    except ValueError:
        return 1


def fresh_dir(*parts):
    d = os.path.join(WORK, *parts)
    shutil.rmtree(d, ignore_errors=True)
    os.makedirs(d, exist_ok=True)
    return d


def run(cmd, timeout=None, cwd=None, env=None, check=False, capture=True):
    e = dict(os.environ)
    if env:
        e.update(env)
    try:
        p = subprocess.run(cmd, cwd=cwd, env=e, timeout=timeout,
                           stdout=subprocess.PIPE if capture else None,
                           stderr=subprocess.STDOUT if capture else None, text=True)
    except subprocess.TimeoutExpired as ex:
        raise ToolError(f"timeout after {timeout}s: {' '.join(map(str, cmd))[:200]}") from ex
    if check and p.returncode != 0:
        raise ToolError(f"command failed ({p.returncode}): {' '.join(map(str, cmd))[:300]}\n{(p.stdout or '')[-3000:]}")
    return p


def build_harness():
    """Rebuild the harness (and with it pyxis from /repo's working tree, hooks enabled)."""
    t = time.time()
    lock = os.path.join(HARNESS, "Cargo.lock")
    if not os.path.exists(lock):
        shutil.copy("/repo/Cargo.lock", lock)
    p = run(["cargo", "build", "--offline"], cwd=HARNESS, timeout=900,
            env={"CARGO_NET_OFFLINE": "true"})
    if p.returncode != 0:
        raise ToolError("harness build failed (pyxis must compile with --cfg pyxis_verif):\n" + p.stdout[-4000:])
    return time.time() - t


def write_json(path, obj):
    os.makedirs(os.path.dirname(path), exist_ok=True)
    tmp = path + ".tmp"
    with open(tmp, "w") as f:
        json.dump(obj, f, indent=1, sort_keys=False)
        f.write("\n")
    os.replace(tmp, path)


def sha(s):
    return hashlib.sha256(s.encode() if isinstance(s, str) else s).hexdigest()[:12]
