"""C01, C02, C03 (and the shared pipeline: TLC MC_Layout -> replay -> both compilers)."""
import json, os, time
from .common import *
from . import tlc, harness, rustobs, conform, trace
from .result import Result

CFG = {"quick": ["MC_Layout_q1.cfg", "MC_Layout_q2.cfg", "MC_Layout_q4.cfg"],
       "thorough": ["MC_Layout_t1.cfg", "MC_Layout_t2.cfg", "MC_Layout_t3.cfg", "MC_Layout_t4.cfg"]}


def render_text(case_or_input):
    """concrete text of an abstract input (via the harness renderer), for samples/replays"""
    return None


class Pipeline:
    """runs once per check invocation; every property evaluator reads from it"""

    def __init__(self, tier, module="MC_Layout", cfgs=None, name="layout", replay_flags=None, compile=True,
                 workers=8):
        self.tier, self.name = tier, name
        self.dir = fresh_dir("run", f"{name}-{tier}")
        self.stats = {}
        t = time.time()
        self.build_s = build_harness()
        cfg_list = (cfgs or CFG)[tier]
        self.tlc = None
        self.cases_path = os.path.join(self.dir, "REPLAY.ndjson")
        base = 0
        with open(self.cases_path, "w") as allc:
            for i, cfg in enumerate(cfg_list):
                sub = os.path.join(self.dir, f"tlc{i}")
                st = tlc.run_tlc(module, cfg, sub, workers=workers, timeout=3000)
                if st["violation"]:
                    raise ToolError(f"TLC reports a sanity invariant violated in the model ({st['violation']['invariant']}):\n"
                                    + st["violation"]["text"][:3000])
                with open(os.path.join(sub, "REPLAY.ndjson")) as f:
                    for line in f:
                        # renumber: ids are unique over all configurations of the run
                        j = line.index(",")
                        allc.write('{"id":%d' % (base + int(line[6:j])) + line[j:])
                os.remove(os.path.join(sub, "REPLAY.ndjson"))
                base += st["behaviours"]
                if self.tlc is None:
                    self.tlc = st
                    self.tlc["cfg"] = [cfg]
                else:
                    for k in ("generated", "distinct", "behaviours", "wall_s"):
                        self.tlc[k] += st[k]
                    self.tlc["depth"] = max(self.tlc["depth"], st["depth"])
                    self.tlc["cfg"].append(cfg)
                    self.tlc["cmd"] += " ; " + st["cmd"]
        self.cases_path = os.path.join(self.dir, "REPLAY.ndjson")
        self.emit_dir = os.path.join(self.dir, "emit")
        flags = list(replay_flags or ["--emit-dir", self.emit_dir, "--prefix", "--project", "--sched"])
        # concrete syntax is randomised (attribute order and grouping, doc placement, literal
        # spellings, trivia), seeded: the parser is on the path of every replay
        flags += ["--style-seed", str(seed())]
        self.obs_path, self.total = harness.replay(self.cases_path, os.path.join(self.dir, "rp"), flags)
        self.replay_s = round(time.time() - t, 1)
        self.layouts = {}       # target -> {(case id, path): layout}
        self.cfail = {}         # target -> {case id: message}
        self._cases = None

    def pairs(self):
        """iterate (case, obs) in lockstep"""
        for c, o in zip(tlc.read_ndjson(self.cases_path), tlc.read_ndjson(self.obs_path)):
            if c["id"] != o["id"]:
                raise ToolError(f"case/observation order mismatch: {c['id']} vs {o['id']}")
            yield c, o

    def compile(self):
        """both compilers on every accepted case"""
        acc8, acc4 = [], []
        for c, o in self.pairs():
            if o.get("accepted") and o.get("files"):
                slim = {"id": c["id"], "input": c["input"]}
                (acc8 if c["input"]["ptr"] == 8 else acc4).append((slim, o))
        t = time.time()
        self.layouts["host"], self.cfail["host"] = rustobs.host(acc8, self.emit_dir, os.path.join(self.dir, "host"))
        self.layouts["x64"], self.cfail["x64"] = rustobs.nocore(acc8, os.path.join(self.dir, "nocore"),
                                                               target="x86_64-pc-windows-msvc")
        self.layouts["i686"], self.cfail["i686"] = rustobs.nocore(acc4, os.path.join(self.dir, "nocore"),
                                                                 target="i686-pc-windows-msvc")
        self.compile_s = round(time.time() - t, 1)
        self.n_compiled = len(acc8) + len(acc4)

    def targets_for(self, ptr):
        return ["host", "x64"] if ptr == 8 else ["i686"]

    def layout_of(self, target, cid, path, proj_item=None):
        """{size, align, offs{name: off}} or None"""
        l = self.layouts[target].get((cid, tuple(path)))
        if l is None:
            return None
        if "offs" not in l and proj_item is not None:
            names = [f["name"] for f in proj_item.get("fields", [])]
            l = dict(l)
            l["offs"] = dict(zip(names, l.get("offlist", [])))
        return l

    def base_coverage(self):
        return {"states": self.tlc["distinct"], "transitions": self.tlc["generated"],
                "traces_validated_against_impl": self.total,
                "tlc": {k: self.tlc[k] for k in ("module", "cfg", "depth", "behaviours", "wall_s")},
                "exhaustive": True,
                "checker_cmd": self.tlc["cmd"]}


def proj_item(obs, path):
    mp, name = tuple(path[:-1]), path[-1]
    for f in obs.get("files", []):
        if tuple(f["rel"][:-3].split("/")) == mp and "proj" in f:
            return f["proj"]["items"].get(name)
    return None


def payload(case, obs, extra=None):
    p = {"group": case.get("group"), "input": case["input"], "order": case.get("order"), "sched": case.get("sched"),
         **({"toks": case["toks"]} if case.get("toks") else {}),
         "observed": {k: obs.get(k) for k in ("outcome", "accepted", "msg", "class") if k in obs},
         "predicted": {"accepted": case.get("accepted"), "oracle": case.get("oracle")}}
    if extra:
        p["detail"] = extra
    return p


def validate_rust_model(pl, res, case, obs):
    """RustLayout.tla against the real compilers, on items whose emitted form equals the mirror's."""
    bad = 0
    mirror_files = {tuple(f["path"]): f for f in case["mirror"]["out"]}
    for ent in case["oracle"].get("layouts", []):
        path = ent["path"]
        mf = mirror_files.get(tuple(path[:-1]))
        pi = proj_item(obs, path)
        if mf is None or pi is None or not isinstance(mf["items"], dict):
            continue
        if conform.item_drift(path[-1], mf["items"][path[-1]], pi):
            continue     # the code emitted something else than the mirror: the model's layout does not apply
        for tgt in pl.targets_for(case["input"]["ptr"]):
            real = pl.layout_of(tgt, case["id"], path, pi)
            if real is None:
                continue
            want = ent["l"]
            offs = [real["offs"].get(f["name"]) for f in pi.get("fields", [])] if pi.get("k") == "struct" else []
            if real["size"] != want["size"] or real["align"] != want["align"] or (pi.get("k") == "struct" and offs != want["offs"]):
                bad += 1
                if bad <= 3:
                    res.notes.append(f"RustLayout.tla disagrees with {tgt} rustc on case {case['id']} {path}: {want} vs {real}")
    return bad


def random_layouts(pid, tier, pl, res, cov):
    from . import randlayout
    n = 400 if tier == "quick" else 20000
    cs = randlayout.cases(seed(), n)
    d = os.path.join(pl.dir, "rand")
    os.makedirs(d, exist_ok=True)
    path = os.path.join(d, "cases.ndjson")
    with open(path, "w") as f:
        for c in cs:
            f.write(json.dumps(c) + "\n")
    emit = os.path.join(d, "emit")
    obs_path, _ = harness.replay(path, os.path.join(d, "rp"), ["--emit-dir", emit, "--prefix", "--project", "--style-seed", str(seed())], jobs=8)
    obs = {o["id"]: o for o in tlc.read_ndjson(obs_path)}
    acc8 = [(c, obs[c["id"]]) for c in cs if obs[c["id"]].get("accepted") and c["input"]["ptr"] == 8]
    acc4 = [(c, obs[c["id"]]) for c in cs if obs[c["id"]].get("accepted") and c["input"]["ptr"] == 4]
    lay = {}
    lay["host"], f1 = rustobs.host(acc8, emit, os.path.join(d, "host"))
    lay["x64"], f2 = rustobs.nocore(acc8, os.path.join(d, "nocore"), target="x86_64-pc-windows-msvc")
    lay["i686"], f3 = rustobs.nocore(acc4, os.path.join(d, "nocore"), target="i686-pc-windows-msvc")
    fails = {"host": f1, "x64": f2, "i686": f3}

    def layout_of(tgt, cid, path_, oi):
        l = lay[tgt].get((cid, tuple(path_)))
        if l is None:
            return None
        if "offs" not in l and oi is not None:
            l = dict(l)
            l["offs"] = dict(zip([f["name"] for f in oi.get("fields", [])], l.get("offlist", [])))
        return l

    recs, back = [], {}
    for c in cs:
        o = obs[c["id"]]
        if o["outcome"] in ("panic", "hang", "abort"):
            continue
        tgts = ["host", "x64"] if c["input"]["ptr"] == 8 else ["i686"]
        for ti, tgt in enumerate(tgts):
            if c["id"] in fails[tgt]:
                continue
            r = trace.record(c, o, lambda p_, oi, tgt=tgt, cid=c["id"]: layout_of(tgt, cid, p_, oi), plain=c["plain"] and pid == "C03")
            r["id"] = c["id"] * 4 + ti
            recs.append(r)
            back[r["id"]] = (c, o, tgt)
    verdicts, tst = trace.evaluate(recs, os.path.join(d, "trace"))
    tst.pop("kf_ids", None)
    n_eval = 0
    for rid, viol in verdicts.items():
        c, o, tgt = back[rid]
        n_eval += 1
        if pid in viol:
            res.violation(f"random description: {pid} is false on the observed behaviour (TLC on the recorded registry, emitted items and "
                          f"{tgt} rustc layouts; code {'accepted' if o['accepted'] else 'rejected'} it)", payload(c, o, {"target": tgt}), None)
    cov["random_descriptions"] = {"n": len(cs), "accepted": len(acc8) + len(acc4), "records_evaluated_by_tlc": len(recs),
                                  "rustc_rejected": {k: len(v) for k, v in fails.items()}, "tlc": tst}
    cov["traces_validated_against_impl"] += len(recs)
    return n_eval


def run_layout(pid, tier):
    res = Result(pid, tier)
    pl = Pipeline(tier)
    need_compile = pid in ("C01", "C02")
    if need_compile:
        pl.compile()
    cov = pl.base_coverage()
    n_acc = n_checked = n_model_viol = rust_bad = 0
    distinct = set()

    def scan(pl):
        """every behaviour of one pipeline judged; returns nothing, updates the counters"""
        nonlocal n_acc, n_checked, n_model_viol, rust_bad
        undecided = []      # (case, obs): behaviours on which code and mirror differ -> decided by TLC on the observed values
        for case, obs in pl.pairs():
            cid = case["id"]
            ptr = case["input"]["ptr"]
            oracle = case["oracle"]
            kf = [k for k in oracle.get("kf", []) if k.startswith(pid + ":")]
            kf_class = kf[0] if kf else None
            if pid in case.get("pviol", []):
                n_model_viol += 1
            crashed = obs["outcome"] in ("panic", "hang", "abort")
            # ---- mirror conformance (drift only)
            d = []
            if obs["accepted"] != case["accepted"]:
                d.append(f"verdict: code {obs['outcome']} vs mirror {'ok' if case['accepted'] else 'err:' + case['err']}")
            elif obs["accepted"]:
                d += conform.reg_drift(case["mirror"]["reg"], obs.get("reg"))
                d += conform.files_drift(case["mirror"]["out"], obs.get("files"))
            res.add_drift(d, cid)
            if need_compile and obs["accepted"] and (d or cid % 97 == 0) and len(undecided) < 20000:
                undecided.append(({"id": cid, "input": case["input"], "group": case.get("group"), "order": case.get("order"),
                                   "sched": case.get("sched"), "accepted": case["accepted"], "oracle": {"kf": oracle.get("kf", [])}}, obs, bool(d)))

            if pid == "C03":
                if not oracle["plain"]:
                    continue
                n_checked += 1
                distinct.add(json.dumps(case["input"]["mods"][0]["defs"][-1], sort_keys=True) + str(ptr))
                if obs["accepted"] != oracle["realisable"]:
                    what = (f"description {'accepted' if obs['accepted'] else 'rejected (' + obs['outcome'] + ')'} "
                            f"but it is {'' if oracle['realisable'] else 'not '}realisable (ptr={ptr})")
                    res.violation(what, payload(case, obs), kf_class)
                if cid % 997 == 0:
                    res.sample({"input": case["input"], "realisable": oracle["realisable"], "code_accepted": obs["accepted"]})
                continue

            if not obs["accepted"]:
                continue
            n_acc += 1
            if need_compile:
                rust_bad += validate_rust_model(pl, res, case, obs)
            tgts = pl.targets_for(ptr)
            if pid == "C01":
                # every named, non-zero-length field of the main type sits at its declared offset
                if not case["accepted"]:
                    res.notes.append(f"case {cid}: accepted by the code but not by the mirror; C01 decided by trace validation only")
                    continue
                tpath = case["input"]["mods"][0]["path"] + [case["input"]["mods"][0]["defs"][-1]["name"]]
                pi = proj_item(obs, tpath)
                for tgt in tgts:
                    if cid in pl.cfail[tgt]:
                        continue          # does not compile: C13's business
                    real = pl.layout_of(tgt, cid, tpath, pi)
                    n_checked += 1
                    distinct.add(json.dumps(case["input"]["mods"][0]["defs"][-1], sort_keys=True) + str(ptr))
                    for f in oracle["offs"]:
                        if f["off"] == NONE:
                            continue
                        got = None if real is None else real["offs"].get(f["name"])
                        if got != f["off"]:
                            res.violation(f"field `{f['name']}` declared at offset {f['off']} is at {got} under {tgt} rustc (ptr={ptr})",
                                          payload(case, obs, {"target": tgt, "layout": real}), kf_class)
                            break
                if cid % 499 == 0:
                    res.sample({"input": case["input"], "declared_offsets": oracle["offs"],
                                "rustc": {t: pl.layout_of(t, cid, tpath, pi) for t in tgts}})
            elif pid == "C02":
                for ent in obs.get("reg", []):
                    if ent["cat"] != "def" or ent["st"] != "R":
                        continue
                    pi = proj_item(obs, ent["path"])
                    for tgt in tgts:
                        if cid in pl.cfail[tgt]:
                            continue
                        real = pl.layout_of(tgt, cid, ent["path"], pi)
                        n_checked += 1
                        if real is None:
                            res.violation(f"resolved item {'::'.join(ent['path'])} has no emitted counterpart under {tgt}",
                                          payload(case, obs), kf_class)
                            continue
                        if real["size"] != ent["res"]["size"] or real["align"] != ent["res"]["align"]:
                            res.violation(
                                f"{'::'.join(ent['path'])}: pyxis resolved size/align {ent['res']['size']}/{ent['res']['align']} "
                                f"but {tgt} rustc says {real['size']}/{real['align']} (ptr={ptr})",
                                payload(case, obs, {"target": tgt, "layout": real}), kf_class)
                # declared size / align / packed are the compiled ones
                for m in case["input"]["mods"]:
                    for dfn in m["defs"]:
                        if dfn["k"] != "type":
                            continue
                        p = m["path"] + [dfn["name"]]
                        for tgt in tgts:
                            real = pl.layout_of(tgt, cid, p, proj_item(obs, p))
                            if real is None or cid in pl.cfail[tgt]:
                                continue
                            if dfn["size"] != NONE and real["size"] != dfn["size"]:
                                res.violation(f"{'::'.join(p)}: declared size {dfn['size']} but compiled size {real['size']} ({tgt})",
                                              payload(case, obs), kf_class)
                            if dfn["align"] != NONE and real["align"] != dfn["align"]:
                                res.violation(f"{'::'.join(p)}: declared align {dfn['align']} but compiled align {real['align']} ({tgt})",
                                              payload(case, obs), kf_class)
                            if dfn["packed"] and real["align"] != 1:
                                res.violation(f"{'::'.join(p)}: packed but compiled align {real['align']} ({tgt})",
                                              payload(case, obs), kf_class)
                distinct.add(json.dumps(case["input"]["mods"][0]["defs"], sort_keys=True) + str(ptr))
                if cid % 499 == 0:
                    res.sample({"input": case["input"],
                                "resolved": [{"path": e["path"], "size": e["res"]["size"], "align": e["res"]["align"]}
                                             for e in obs.get("reg", []) if e["st"] == "R"]})
        # ---- direction B: TLC evaluates the property on what the code actually did
        if undecided:
            recs, back = [], {}
            for case, obs, drifted in undecided:
                for ti, tgt in enumerate(pl.targets_for(case["input"]["ptr"])):
                    if case["id"] in pl.cfail[tgt]:
                        continue
                    rid = case["id"] * 4 + ti
                    r = trace.record(case, obs, lambda path, oi, tgt=tgt, cid=case["id"]: pl.layout_of(tgt, cid, path, oi))
                    r["id"] = rid
                    recs.append(r)
                    back[rid] = (case, obs, tgt, drifted)
            verdicts, tst = trace.evaluate(recs, os.path.join(pl.dir, "trace"))
            tst.pop("kf_ids", None)
            cov["trace_validation" if pl.name == "layout" else "trace_validation_text_level"] = dict(tst, drifted=sum(1 for _, _, d_ in undecided if d_))
            for rid, viol in verdicts.items():
                case, obs, tgt, drifted = back[rid]
                if pid in viol:
                    res.violation(f"{pid} is false on the observed behaviour (evaluated by TLC on the recorded registry, emitted items "
                                  f"and {tgt} rustc layouts; code and mirror {'disagree' if drifted else 'agree'} on this case)",
                                  payload(case, obs, {"target": tgt}),
                                  next((k for k in case["oracle"].get("kf", []) if k.startswith(pid + ":")), None))

    scan(pl)
    # ---- the same properties on the text-level family: every single-token mutation of three base texts that is still a module
    #      of the language (Parse.tla) with an image in Base.tla (Interp.tla), fed to pyxis as the mutated TEXT
    pl_pipe = Pipeline(tier, module="MC_Pipe", cfgs={"quick": ["MC_Pipe_q1.cfg"], "thorough": ["MC_Pipe_t1.cfg"]}, name="layout-pipe")
    if need_compile:
        pl_pipe.compile()
    bp = pl_pipe.base_coverage()
    for k in ("states", "transitions", "traces_validated_against_impl"):
        cov[k] += bp[k]
    cov["tlc"] = [cov["tlc"], bp["tlc"]]
    cov["checker_cmd"] += " ; " + bp["checker_cmd"]
    before = n_checked
    scan(pl_pipe)
    cov["text_level_mutants"] = {"usable_mutants_x_widths": pl_pipe.total, "evaluations": n_checked - before}
    # ---- direction B proper: random descriptions beyond the exhaustive bounds, decided by TLC on the observations
    n_rand = random_layouts(pid, tier, pl, res, cov)
    n_checked += n_rand
    if rust_bad:
        raise ToolError("rustc model invalid: RustLayout.tla disagrees with the real compiler:\n" + "\n".join(res.notes[:5]))
    cov.update({"evaluations": n_checked, "distinct_nontrivial": len(distinct),
                "rule": "every description enumerated by TLC for MC_Layout (bounds in the cfg) replayed into pyxis; "
                        "distinct = distinct (type description, pointer width) pairs on which the property's antecedent holds",
                "accepted_by_code": n_acc, "model_level_violations": n_model_viol})
    if need_compile:
        cov["rustc_types_checked"] = {t: len(v) for t, v in pl.layouts.items()}
        cov["rustc_rejected_cases"] = {t: len(v) for t, v in pl.cfail.items()}
    if pid == "C03":
        # the unbounded half: remainders (Realisable, Resolve.tla) and rounded offsets (RustLayout.tla) say the same
        from .bounds import tlaps_proofs
        cov["tlaps"] = tlaps_proofs("ArithProofs", needs=("Arith.tla",),
                                    theorems=("RoundUpFacts: RoundUp(n, a) is the multiple of a in n .. n+a-1",
                                              "FixedIffAligned: RoundUp(n, a) = n <=> n % a = 0, for naturals of any size",
                                              "PaddedPlace: after explicit padding up to an aligned address the compiler adds none",
                                              "SlotBase/SlotStep: pointer-sized slots under repr(C) sit at i times the pointer width, for tables of any length",
                                              "ArrayStride: when the element size is a multiple of the element alignment every element is aligned"))
    res.coverage = cov
    res.assumptions = [
        "RustLayout.tla (the model of the compiler) is trusted only as far as this run's cross-check against host rustc, "
        "nightly x86_64-pc-windows-msvc and i686-pc-windows-msvc on every emitted item",
        "TLC explores the bounded description space of the cfg exhaustively; beyond it coverage comes from the trace-validation runs",
        "zero-length array fields are omitted by design and exempt from C01",
    ]
    return res.finish()
