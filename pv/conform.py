"""Code-vs-mirror conformance: compare what pyxis did (registry projection, static projection
of the emitted files) with what the TLA+ mirror predicted.  A difference here is *drift*,
never by itself a violation: verdicts are decided by the property oracles."""
import json
from .common import NONE

BASE_ENUM_DERIVES = ["PartialEq", "Eq", "PartialOrd", "Ord", "Debug"]

ANCHOR = {"i128min": -2**127 + 8, "i64min": -2**63, "i32min": -2**31, "i16min": -2**15, "i8min": -128, "0": 0,
          "i8max": 127, "u8max": 255, "i16max": 2**15 - 1, "u16max": 2**16 - 1, "i32max": 2**31 - 1,
          "u32max": 2**32 - 1, "p60": 2**60, "p61": 2**61, "p62": 2**62, "none": 0, "i64max": 2**63 - 1, "u64max": 2**64 - 1, "i128max": 2**127 - 9, "u128max": 2**127 - 9}


def num(v):
    if isinstance(v, dict) and "a" in v:
        return ANCHOR[v["a"]] + v["d"]
    return v


def denum(x):
    """replace the specification's symbolic integers [a, d] by plain ones everywhere in a JSON value"""
    if isinstance(x, dict):
        if set(x.keys()) == {"a", "d"}:
            return NONE if x["a"] == "none" else num(x)
        return {k: denum(v) for k, v in x.items()}
    if isinstance(x, list):
        return [denum(v) for v in x]
    return x


def norm_reg(entries):
    out = {}
    for e in entries or []:
        e = dict(e)
        if e.get("cat") == "vft":
            e["cat"] = "def"
        out[tuple(e["path"])] = e
    return out


def _first_diff(a, b, path=""):
    """first structural difference between two JSON values, as a short string (or None)"""
    if type(a) != type(b) and not (isinstance(a, (int, float)) and isinstance(b, (int, float))):
        # ToJson prints an empty function as [] where the harness has {}
        if a in ([], {}) and b in ([], {}):
            return None
        return f"{path}: {str(a)[:60]} != {str(b)[:60]}"
    if isinstance(a, dict):
        for k in sorted(set(a) | set(b)):
            if k not in a or k not in b:
                return f"{path}.{k}: missing on one side"
            d = _first_diff(a[k], b[k], f"{path}.{k}")
            if d:
                return d
        return None
    if isinstance(a, list):
        if len(a) != len(b):
            return f"{path}: length {len(a)} != {len(b)}"
        for i, (x, y) in enumerate(zip(a, b)):
            d = _first_diff(x, y, f"{path}[{i}]")
            if d:
                return d
        return None
    if a != b:
        return f"{path}: {str(a)[:60]} != {str(b)[:60]}"
    return None


def reg_drift(mirror_reg, obs_reg):
    m, o = norm_reg(denum(mirror_reg)), norm_reg(obs_reg)
    diffs = []
    for p in sorted(set(m) | set(o)):
        if p not in m:
            diffs.append(f"reg {'::'.join(p)}: only in code")
        elif p not in o:
            diffs.append(f"reg {'::'.join(p)}: only in mirror")
        else:
            d = _first_diff(m[p], o[p], "reg " + "::".join(p))
            if d:
                diffs.append(d)
    return diffs


def _method_cmp(mm, om, where):
    diffs = []
    for k in ("name", "vis", "doc", "ret"):
        if mm[k] != om.get(k):
            diffs.append(f"{where}.{k}: {mm[k]} != {om.get(k)}")
    margs = [{"k": a["k"], "name": a["name"], "ty": a["ty"]} for a in mm["args"]]
    oargs = [{"k": a["k"], "name": a["name"], "ty": a["ty"]} for a in om.get("args", [])]
    if margs != oargs:
        diffs.append(f"{where}.args differ")
    ob = om.get("body", {})
    mb = mm["body"]
    if ob.get("k") == "unknown":
        diffs.append(f"{where}.body: unrecognised shape")
    else:
        for k in ("k", "a", "f", "fn"):
            if mb[k] != ob.get(k):
                diffs.append(f"{where}.body.{k}: {mb[k]} != {ob.get(k)}")
        if mb["k"] == "addr" and ob.get("k") == "addr":
            fnty = ob.get("fnty", {})
            if fnty.get("cc") != mm["cc"]:
                diffs.append(f"{where}.cc: {mm['cc']} != {fnty.get('cc')}")
    return diffs


def item_drift(name, mi, oi):
    w = f"item {name}"
    diffs = []
    if oi is None:
        return [f"{w}: not emitted"]
    if oi.get("count") != 1:
        diffs.append(f"{w}: emitted {oi.get('count')} times")
    if mi["k"] != oi.get("k"):
        return diffs + [f"{w}: kind {mi['k']} != {oi.get('k')}"]
    for k in ("vis", "doc"):
        if mi[k] != oi.get(k):
            diffs.append(f"{w}.{k}: {mi[k]} != {oi.get(k)}")
    if mi["sizecheck"] != oi.get("sizecheck"):
        diffs.append(f"{w}.sizecheck: {mi['sizecheck']} != {oi.get('sizecheck')}")
    if mi["singleton"] != oi.get("singleton"):
        diffs.append(f"{w}.singleton: {mi['singleton']} != {oi.get('singleton')}")
    repr_ = oi.get("repr", {})
    if mi["k"] == "struct":
        if mi["derives"] != oi.get("derives"):
            diffs.append(f"{w}.derives: {mi['derives']} != {oi.get('derives')}")
        if not repr_.get("c"):
            diffs.append(f"{w}: not repr(C)")
        if mi["packed"] != repr_.get("packed"):
            diffs.append(f"{w}.packed: {mi['packed']} != {repr_.get('packed')}")
        if mi["align"] != repr_.get("align"):
            diffs.append(f"{w}.align: {mi['align']} != {repr_.get('align')}")
        mf = [{"name": f["name"], "vis": f["vis"], "doc": f["doc"], "ty": _ty_norm(f["ty"])} for f in mi["fields"]]
        of = [{"name": f["name"], "vis": f["vis"], "doc": f["doc"], "ty": _ty_norm(f["ty"])} for f in oi.get("fields", [])]
        d = _first_diff(mf, of, f"{w}.fields")
        if d:
            diffs.append(d)
        va, oa = mi["vftacc"], oi.get("vftacc", {})
        if va["has"] != oa.get("has") or (va["has"] and (va["via"] != oa.get("via") or _ty_norm(va["ty"]) != _ty_norm(oa.get("ty")))):
            diffs.append(f"{w}.vftacc: {va} != {oa}")
        mm, om = mi["methods"], oi.get("methods", [])
        if len(mm) != len(om):
            diffs.append(f"{w}.methods: {[m['name'] for m in mm]} != {[m['name'] for m in om]}")
        else:
            for a, b in zip(mm, om):
                diffs += _method_cmp(_meth_norm(a), _meth_norm(b), f"{w}.{a['name']}")
        good = sorted((json.dumps(_ty_norm(a["ty"]), sort_keys=True), tuple(a["path"])) for a in mi["asrefs"] if not a["conflict"])
        for key in ("asrefs", "asmuts"):
            # the code also emits the reflexive conversion T -> T
            got = sorted((json.dumps(_ty_norm(a["ty"]), sort_keys=True), tuple(a["path"])) for a in oi.get(key, []) if a["path"])
            if good != got:
                diffs.append(f"{w}.{key}: {good} != {got}")
        nconf = sum(1 for a in mi["asrefs"] if a["conflict"])
        if nconf != len(oi.get("conflicts", [])):
            diffs.append(f"{w}.conflicts: {nconf} != {len(oi.get('conflicts', []))}")
    else:
        want = BASE_ENUM_DERIVES + mi["derives"]
        if want != oi.get("derives"):
            diffs.append(f"{w}.derives: {want} != {oi.get('derives')}")
        rt = mi["repr"]
        rname = rt["p"][-1] if rt.get("k") == "raw" else "?"
        if repr_.get("int") != rname:
            diffs.append(f"{w}.repr: {rname} != {repr_.get('int')}")
        mv = [{"name": v["name"], "val": v["val"], "dflt": v["dflt"]} for v in mi["vars"]]
        ov = [{"name": v["name"], "val": v["val"], "dflt": v["dflt"]} for v in oi.get("vars", [])]
        d = _first_diff(mv, ov, f"{w}.vars")
        if d:
            diffs.append(d)
    return diffs


def _ty_norm(t):
    """drop keys that only one side has (fn `unsafe`) and normalise numbers"""
    if not isinstance(t, dict):
        return t
    k = t.get("k")
    if k == "fn":
        return {"k": "fn", "cc": t.get("cc"), "args": [{"name": a["name"], "ty": _ty_norm(a["ty"])} for a in t.get("args", [])],
                "ret": _ty_norm(t.get("ret"))}
    if k in ("cptr", "mptr"):
        return {"k": k, "t": _ty_norm(t["t"])}
    if k == "arr":
        return {"k": k, "t": _ty_norm(t["t"]), "len": t["len"]}
    return t


def _meth_norm(m):
    m = dict(m)
    m["ret"] = _ty_norm(m.get("ret"))
    m["args"] = [{"k": a["k"], "name": a.get("name", ""), "ty": _ty_norm(a.get("ty"))} for a in m.get("args", [])]
    return m


def files_drift(mirror_out, obs_files):
    """mirror_out: list of abstract files; obs_files: list of {rel, proj}"""
    diffs = []
    mirror_out = denum(mirror_out)
    of = {tuple(f["rel"][:-3].split("/")): f for f in obs_files or [] if f["rel"].endswith(".rs")}
    mf = {tuple(f["path"]): f for f in mirror_out or []}
    for p in sorted(set(of) | set(mf)):
        if p not in of:
            diffs.append(f"file {'/'.join(p)}: not written")
            continue
        if p not in mf:
            diffs.append(f"file {'/'.join(p)}: unexpected")
            continue
        proj = of[p].get("proj")
        if proj is None:
            diffs.append(f"file {'/'.join(p)}: not parseable: {of[p].get('proj_err')}")
            continue
        m = mf[p]
        if m["doc"] != proj["doc"]:
            diffs.append(f"file {'/'.join(p)}.doc: {m['doc']} != {proj['doc']}")
        mitems = m["items"] if isinstance(m["items"], dict) else {}
        oitems = {k: v for k, v in proj["items"].items() if v.get("k") != "none" or v.get("count")}
        for n in sorted(set(mitems) | set(oitems)):
            if n not in mitems:
                if oitems[n].get("k") in ("struct", "enum"):
                    diffs.append(f"item {n}: emitted but not predicted")
                continue
            diffs += item_drift(n, mitems[n], oitems.get(n))
        mev = sorted(((e["name"], e["vis"], json.dumps(_ty_norm(e["ty"]), sort_keys=True), e["addr"]) for e in m["evals"]))
        oev = sorted(((e["name"], e["vis"], json.dumps(_ty_norm(e["ret"].get("t")), sort_keys=True), e["addr"]) for e in proj["evals"]))
        if mev != oev:
            diffs.append(f"file {'/'.join(p)}.evals: {mev} != {oev}")
    return diffs
