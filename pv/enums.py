"""C08 (enum discriminants, representation, default variant) on MC_Enum."""
import json, os
from .common import *
from . import conform
from .layout import Pipeline, payload, proj_item
from .result import Result

CFG = {"quick": ["MC_Enum_q1.cfg"], "thorough": ["MC_Enum_t1.cfg"]}

from .conform import ANCHOR, num, denum
SIZES = {"u8": 1, "i8": 1, "u16": 2, "i16": 2, "u32": 4, "i32": 4, "u64": 8, "i64": 8, "u128": 16, "i128": 16}


def wrap(v, base):
    bits = SIZES[base] * 8
    v %= 1 << bits
    if base.startswith("i") and v >= 1 << (bits - 1):
        v -= 1 << bits
    return v


def run_enum(pid, tier):
    res = Result(pid, tier)
    pl = Pipeline(tier, module="MC_Enum", cfgs=CFG, name="enum")
    pl.compile()
    cov = pl.base_coverage()
    n_checked = n_model = n_acc = 0
    for case, obs in pl.pairs():
        cid, ptr, oracle = case["id"], case["input"]["ptr"], case["oracle"]
        kf = [k for k in oracle.get("kf", []) if k.startswith(pid + ":")]
        kf_class = kf[0] if kf else None
        if pid in case.get("pviol", []):
            n_model += 1
        d = []
        if obs["accepted"] != case["accepted"]:
            d.append(f"verdict: code {obs['outcome']} vs mirror {'ok' if case['accepted'] else 'err:' + case['err']}")
        elif obs["accepted"]:
            d += conform.reg_drift(denum(case["mirror"]["reg"]), obs.get("reg"))
            d += conform.files_drift(denum(case["mirror"]["out"]), obs.get("files"))
        res.add_drift(d, cid)
        n_checked += 1
        edef = case["input"]["mods"][0]["defs"][0]
        base = oracle["base"]
        if oracle["mustReject"]:
            if obs["accepted"]:
                why = ("an enum over a base that is not a primitive integer type" if base not in SIZES else
                       "an enum whose discriminants do not fit the base type / whose default marker does not match `defaultable`")
                res.violation(why + " is accepted", payload(case, obs), kf_class)
            continue
        if not obs["accepted"]:
            continue
        n_acc += 1
        it = proj_item(obs, ["m", "E"])
        problems = []
        if it is None or it.get("k") != "enum":
            res.violation("accepted but no enum E emitted", payload(case, obs), kf_class)
            continue
        if it.get("repr", {}).get("int") != base:
            problems.append(f"repr({it.get('repr', {}).get('int')}) instead of repr({base})")
        want = [num(v) for v in oracle["expected"]]
        # represented as the base type: the size/alignment pyxis resolved for it are the base type's
        ent = next((e for e in obs.get("reg", []) if e["path"] == ["m", "E"]), None)
        if ent is None or ent["st"] != "R" or ent["res"]["size"] != SIZES[base] or ent["res"]["align"] != SIZES[base]:
            problems.append(f"pyxis resolved size/align {ent and ent['res'].get('size')}/{ent and ent['res'].get('align')} for an enum over {base}")
        for tgt in pl.targets_for(ptr):
            if cid in pl.cfail[tgt]:
                problems.append(f"the emitted enum does not compile under {tgt}: {pl.cfail[tgt][cid]}")
                continue
            l = pl.layout_of(tgt, cid, ["m", "E"], it)
            if l is None:
                problems.append(f"no layout under {tgt}")
                continue
            if l["size"] != SIZES[base] or l["align"] != SIZES[base]:
                problems.append(f"size/align {l['size']}/{l['align']} under {tgt}, base {base}")
            if tgt == "host":
                got = [int(l["vals"].get(v["name"], "0")) for v in edef["vars"]]
                if got != want:
                    problems.append(f"discriminants evaluate to {got}, declared {want}")
                if edef["defaultable"]:
                    dv = l.get("default")
                    if dv is None or int(dv) != want[oracle["defaultIdx"] - 1]:
                        problems.append(f"Default::default() is {dv}, the marked variant is {want[oracle['defaultIdx'] - 1]}")
        if ptr == 4:
            # no execution at width 4: the written literals are read instead
            if any(v["val"] == "unknown" for v in it.get("vars", [])):
                res.notes.append(f"case {cid}: discriminants are not written as literals (not judged at width 4)")
                got = want
            else:
                got = [v["val"] if isinstance(v["val"], int) else int(v["val"]) for v in it.get("vars", [])]
            if got != want:
                problems.append(f"discriminant literals {got}, declared {want}")
        if ("Default" in it.get("derives", [])) != edef["defaultable"]:
            problems.append("derive(Default) does not match `defaultable`")
        if problems:
            res.violation("; ".join(problems[:3]), payload(case, obs), kf_class)
        if cid % 301 == 0:
            res.sample({"enum": edef, "expected_values": want, "host": pl.layout_of("host", cid, ["m", "E"], it) if ptr == 8 else None})
    cov.update({"evaluations": n_checked, "distinct_nontrivial": n_checked, "accepted_by_code": n_acc,
                "rule": "every enum description enumerated by TLC for MC_Enum (base types x boundary values x default markers) replayed "
                        "into pyxis; discriminants and Default::default() are executed on the host, size/align from the compilers",
                "model_level_violations": n_model,
                "rustc_rejected_cases": {t: len(v) for t, v in pl.cfail.items()}})
    res.coverage = cov
    res.assumptions = ["discriminant values are symbolic (anchor + offset) in the specification and mapped to concrete literals by the harness",
                       "execution of `Variant as i128` and Default::default() happens on the 64-bit host only"]
    return res.finish()
