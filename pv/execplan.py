"""Plans for the host execution rig, built from the specification's oracle records."""
from .common import NONE

BUILTINS = {"void", "bool", "u8", "u16", "u32", "u64", "u128", "i8", "i16", "i32", "i64", "i128", "f32", "f64"}


def decl_ty(t, modpath):
    """a declared type expression of the generators -> resolved abstract type (all names built-in or same module)"""
    k = t.get("k")
    if k == "nm":
        return {"k": "raw", "p": [t["n"]] if t["n"] in BUILTINS else modpath + [t["n"]]}
    if k in ("cptr", "mptr"):
        return {"k": k, "t": decl_ty(t["t"], modpath)}
    if k == "arr":
        return {"k": "arr", "t": decl_ty(t["t"], modpath), "len": t["len"]}
    if k == "unk":
        return {"k": "arr", "t": {"k": "raw", "p": ["u8"]}, "len": t["len"]}
    return {"k": "none"}


def decl_args(f, modpath):
    return [{"k": a["k"], "name": a["name"], "ty": decl_ty(a["ty"], modpath) if a["k"] == "named" else {"k": "none"}} for a in f["args"]]


def plan_vft(case):
    """C04: every declared virtual function with a receiver is called through a fake table"""
    m = case["input"]["mods"][0]
    v = m["defs"][0]
    table = case["oracle"]["table"]
    acts = []
    for f in v["vft"]["funcs"]:
        if not any(a["k"] in ("cself", "mself") for a in f["args"]):
            continue
        slot = next((i for i, s in enumerate(table) if not s["pad"] and s["name"] == f["name"]), None)
        if slot is None:
            continue
        acts.append({"k": "vcall", "ty": m["path"] + [v["name"]], "method": f["name"], "args": decl_args(f, m["path"]),
                     "ret": decl_ty(f["ret"], m["path"]), "slot": slot, "table_len": len(table)})
    return acts


def plan_impl(case, pid):
    m = case["input"]["mods"][-1]
    o = case["oracle"]
    acts = []
    if pid == "C05":
        for f in o["funcs"]:
            acts.append({"k": "acall", "ty": m["path"] + ["T"], "method": f["name"], "args": f["args"], "ret": f["ret"], "addr": f["addr"]})
    else:
        if o["tsingle"] != NONE:
            acts.append({"k": "single_struct", "ty": m["path"] + ["T"], "addr": o["tsingle"]})
        if o.get("osingle", NONE) != NONE:
            acts.append({"k": "single_struct", "ty": m["path"] + ["Eng"], "addr": o["osingle"]})
        if o["esingle"] != NONE:
            acts.append({"k": "single_enum", "ty": m["path"] + ["E"], "addr": o["esingle"]})
        for e in o["evals"]:
            acts.append({"k": "eval", "module": m["path"], "name": e["name"], "addr": e["addr"]})
        for e in o.get("gevals", []):
            acts.append({"k": "eval", "module": ["g"], "name": e["name"], "addr": e["addr"]})
    return acts


def plan_inherit(case, pid):
    """C06: vftable() returns the pointer stored in the (base sub-)object; C07: forwarded methods reach the base's
    function with the sub-object as receiver, AsRef/AsMut return the sub-object"""
    inp = case["input"]
    defs, impls, modof = {}, {}, {}
    for m in inp["mods"]:
        for d in m["defs"]:
            defs[d["name"]] = d
            modof[d["name"]] = m["path"]
        for im in m["impls"]:
            impls[im["name"]] = im["funcs"]
    oracle = {t["name"]: t for t in case["oracle"]["types"]}

    def field_type(tname, field):
        f = next(x for x in defs[tname]["fields"] if x["name"] == field)
        return f["ty"]["n"]

    def resolve(tname, meth, path):
        """follow forwarding to the function that is finally called: (via dict, declaring function) or None"""
        o = oracle[tname]
        e = next((x for x in o["exposed"] if x["name"] == meth), None)
        if e is not None:
            return resolve(field_type(tname, e["field"]), e["orig"], path + [e["field"]])
        f = next((x for x in impls.get(tname, []) if x["name"] == meth), None)
        if f is not None:
            return {"kind": "addr", "addr": f["addr"], "field_path": path}, f, modof[tname]
        tab = o["table"]
        slot = next((i for i, s in enumerate(tab) if not s["pad"] and s["name"] == meth), None)
        if slot is None:
            return None
        # the declaring vftable block: walk first bases until a block declares it
        cur = tname
        while True:
            blk = defs[cur]["vft"]
            f = next((x for x in blk["funcs"] if x["name"] == meth), None) if blk["has"] else None
            if f is not None:
                break
            b = next((x for x in defs[cur]["fields"] if x["base"]), None)
            if b is None:
                return None
            cur = b["ty"]["n"]
        return {"kind": "slot", "slot": slot, "table_len": len(tab), "field_path": path}, f, modof[cur]

    acts = []

    for t in case["oracle"]["types"]:
        ty = t["path"]
        if pid == "C04":
            # every virtual function of the type's table, inherited ones included, called on an object of the type through a fake table
            if not t["table"]:
                continue
            # where the object's vftable pointer lives: follow the first bases down to the type that owns it (its first word);
            # a base that is not the first field puts it away from the object's own first word
            vpath, cur = [], t
            while cur["baseHasVft"]:
                vpath.append(cur["firstBase"])
                cur = oracle[field_type(cur["name"], cur["firstBase"])]
            if not cur["ownBlock"]:
                continue
            for slot, s in enumerate(t["table"]):
                if s["pad"] or s["name"].startswith("_"):
                    continue
                r = resolve(t["name"], s["name"], [])
                if r is None:
                    continue
                via, f, mp = r
                if via["kind"] != "slot" or via["field_path"] or not any(a["k"] in ("cself", "mself") for a in f["args"]):
                    continue
                acts.append({"k": "vcall", "ty": ty, "method": s["name"], "args": decl_args(f, mp), "ret": decl_ty(f["ret"], mp),
                             "slot": slot, "table_len": len(t["table"]), "vpath": vpath})
            continue
        if pid == "C06":
            if t["baseHasVft"] or t["ownBlock"]:
                # where the pointer lives: follow the first bases down to the type that owns it
                path, cur = [], t
                while cur["baseHasVft"]:
                    path.append(cur["firstBase"])
                    cur = oracle[field_type(cur["name"], cur["firstBase"])]
                acts.append({"k": "vftacc", "ty": ty, "path": path})
        else:
            for e in t["exposed"]:
                r = resolve(t["name"], e["name"], [])
                if r is None:
                    continue
                via, f, mp = r
                if not via["field_path"]:
                    continue
                if not any(a["k"] in ("cself", "mself") for a in f["args"]):
                    continue        # a forwarder without receiver: no sub-object to observe (decided statically and by the compilers)
                acts.append({"k": "fcall", "ty": ty, "method": e["name"], "args": decl_args(f, mp), "ret": decl_ty(f["ret"], mp), "via": via})
            for a in t["asrefs"]:
                acts.append({"k": "asref", "ty": ty, "target": a["ty"], "fields": a["path"]})
    return acts
